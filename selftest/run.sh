#!/bin/bash
# Sensitivity self-test: re-introduce each repaired defect (reverse patch of its fix: commit) and each
# seeded change into /repo, run the owning property's check, expect VIOLATION (rc 1); /repo is always restored.
# usage: selftest/run.sh [quick|thorough] [fixes|seeded|all]   (never run while another check uses /repo)
# With BSV_STAGES=native only the native stages run (fast); seeded/C08c is undefined behaviour with right
# results and is then expected to be MISSED - it needs the Miri stages (run without BSV_STAGES).
tier="${1:-quick}"; what="${2:-all}"
cd /verif || exit 3
declare -A OWNER=( [F1]=C02 [F2]=C04 [F3]=C04 [F4]=C05 [F5]=C05 [F6]=C09 [F7]=C10 [F8]=C17 [F9]=C03 [F10]=C04 [F11]=C06 )
pass=0; fail=0
run_one() { # id patch prop
  out=$(tools/seedtest.sh "$2" "$3" "$tier" 2>&1); rc=$?
  sigs=$(echo "$out" | grep -c "violation signature")
  if echo "$out" | grep -q "^VIOLATION property=$3 "; then echo "DETECTED $1 by $3 ($sigs signatures)"; pass=$((pass+1)); else echo "MISSED   $1 by $3 (rc=$rc)"; fail=$((fail+1)); fi
  mkdir -p work/selftest; echo "$out" > work/selftest/$1.log
}
if [ "$what" != "seeded" ]; then
  for f in /verif/selftest/F*-re*-*.diff; do id=$(basename $f | cut -d- -f1); run_one $id $f ${OWNER[$id]}; done
fi
if [ "$what" != "fixes" ]; then
  for d in /verif/seeded/C???; do id=$(basename $d); pf=$d/patch.diff; for r in $d/patch-rebased-*.diff; do [ -f "$r" ] && pf=$r; done; run_one $id $pf ${id:0:3}; done
fi
echo "selftest: detected=$pass missed=$fail"
[ $fail -eq 0 ]
