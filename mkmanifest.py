#!/usr/bin/env python3
"""Regenerates MANIFEST.json from the table below (run after adding a monitor)."""
import json
import subprocess
from pathlib import Path

ROOT = Path(__file__).resolve().parent

# id -> (technique, level text, level note, design ref)
CHECKS = {
    "C05": ("reference-table monitor over the complete finite domain, repeated under Miri (both assertion modes), ASan, memcheck",
            "Complete enumeration: all 256 byte values as bit pattern and as ASCII through try/unsafe_from_bits/ascii of all seven codecs, every symbol of items(), every complement, in debug-assertion and release builds and under Miri in both modes. The oracle is the documented alphabet transcribed by hand (model.rs), so a table edit cannot change oracle and subject together. The domain is finite, so 'held on everything observed' here means held on the whole domain for this build.",
            "Trusts model.rs (documentation transcription), rustc/Miri. For text::Dna the documented bit table is the identity on bytes (module doc: literal interpretation of bytes).",
            "DESIGN.md section 2, C05"),
}

NOT_YET = "monitor not built yet in this revision (planned in DESIGN.md section 2); not claimed until it runs"


def main():
    props = [json.loads(l) for l in (ROOT / "properties.jsonl").read_text().splitlines() if l.strip()]
    try:
        hook_commits = subprocess.run(["git", "-C", "/repo", "log", "--format=%H", "--grep=^verif-hooks"],
                                      capture_output=True, text=True).stdout.split()
    except Exception:
        hook_commits = []
    checks, na = [], []
    for p in props:
        pid = p["id"]
        if pid in CHECKS:
            tech, text, note, ref = CHECKS[pid]
            checks.append(dict(
                property_id=pid,
                quick_cmd=f"./check {pid} quick",
                thorough_cmd=f"./check {pid} thorough",
                evidence_file=f"/verif/evidence/{pid}.json",
                replay_cmd_template=f"./check {pid} --replay {{path}}",
                engine="bsv",
                level_claimed=dict(category="exploration", text=text, design_ref=ref),
                level_note=note,
                technique=tech,
            ))
        else:
            na.append(dict(property_id=pid, reason=NOT_YET))
    m = dict(
        version=1,
        setup_cmd="./check --setup",
        hooks=dict(
            guard="cargo feature `verif-hooks` of crate bio-seq (off by default)",
            enable="the harness depends on bio-seq by path (/verif/harness/repo -> /repo) with features translation,extra_codecs,serde,verif-hooks; cargo rebuilds from /repo's working tree on every check",
            baseline_off_cmd="cd /repo && cargo test --workspace --no-fail-fast --offline",
            source_commits=hook_commits,
            add_only=True,
        ),
        engines=[dict(name="bsv", path="/verif/harness",
                      serves_properties=sorted(CHECKS),
                      kind_free_text="Rust monitor binaries (one per property) calling the public API of the real library against an independent reference model; each workload is run natively with debug assertions on and off, under Miri (UB / data-race interpreter) in both modes, and in the thorough tier under AddressSanitizer and valgrind memcheck; driven by /verif/check")],
        checks=checks,
        notes="Runtime monitoring only: verdicts are 'held on the executions observed' (see evidence files for what was observed). Exit 2 / INCONCLUSIVE is distinct from both pass and violation. known_findings.json lists repaired defects (fixed:) and would list unrepaired ones (known).",
        not_applicable=na,
    )
    (ROOT / "MANIFEST.json").write_text(json.dumps(m, indent=1) + "\n")
    print(f"MANIFEST.json: {len(checks)} checks, {len(na)} not yet claimed")


if __name__ == "__main__":
    main()
