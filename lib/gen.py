"""Generated-program stages for C16 (literal macros) and C17 (derive(Codec)).

The monitor generates Rust programs as plain source text, compiles them with the real
proc-macros of /repo inside rustc, and observes (a) the compiler's diagnostics stream and
(b) the behaviour of the code the macros generated.  Programs live under work/<ID>/gen
(gitignored); nothing is kept under /tmp.
"""
import json
import os
import random
import re
import shutil
from pathlib import Path

# ------------------------------------------------------------------------------------ common


def rust_str(s):
    """Rust string literal for a Python str (escapes everything non-printable / non-ASCII)"""
    out = []
    for ch in s:
        o = ord(ch)
        if ch == '"':
            out.append('\\"')
        elif ch == "\\":
            out.append("\\\\")
        elif ch == "\n":
            out.append("\\n")
        elif ch == "\t":
            out.append("\\t")
        elif ch == "\r":
            out.append("\\r")
        elif ch == "\0":
            out.append("\\0")
        elif 0x20 <= o < 0x7F:
            out.append(ch)
        else:
            out.append("\\u{%x}" % o)
    return '"' + "".join(out) + '"'


def crate_toml(name, harness, bins, extra_deps=""):
    t = f"""[package]
name = "{name}"
version = "0.0.0"
edition = "2021"
publish = false

[workspace]

[dependencies]
bio-seq = {{ path = "{harness}/repo/bio-seq" }}
{extra_deps}
[profile.dev]
opt-level = 0
debug = 0
incremental = false
codegen-units = 16

[profile.release]
opt-level = 2
debug = 0
debug-assertions = false
overflow-checks = false
incremental = false
codegen-units = 16
"""
    for b in bins:
        t += f'\n[[bin]]\nname = "{b}"\npath = "src/bin/{b}.rs"\n'
    return t


def setup_crate(root, name, harness, bins, extra_deps=""):
    root = Path(root)
    if (root / "src").exists():
        shutil.rmtree(root / "src")
    (root / "src" / "bin").mkdir(parents=True)
    (root / ".cargo").mkdir(exist_ok=True)
    (root / ".cargo" / "config.toml").write_text("[net]\noffline = true\n")
    (root / "Cargo.toml").write_text(crate_toml(name, harness, bins, extra_deps))
    shutil.copy(Path(harness) / "Cargo.lock", root / "Cargo.lock")
    return root


def call_site_line(msg, fname):
    """line (1-based) in file `fname` that a diagnostic belongs to, following macro expansions outward"""
    lines = set()

    def walk(span):
        if span is None:
            return
        if span.get("file_name", "").endswith(fname):
            lines.add(span["line_start"])
        exp = span.get("expansion")
        if exp:
            walk(exp.get("span"))

    for sp in msg.get("spans", []):
        walk(sp)
    for ch in msg.get("children", []):
        for sp in ch.get("spans", []):
            walk(sp)
    return lines


def cargo_json_errors(out, fname):
    """-> dict line -> [messages] for error-level diagnostics attributed to file `fname`"""
    res = {}
    others = []
    for line in out.splitlines():
        if not line.startswith("{"):
            continue
        try:
            j = json.loads(line)
        except ValueError:
            continue
        if j.get("reason") != "compiler-message":
            continue
        m = j["message"]
        if m.get("level") != "error":
            continue
        ls = call_site_line(m, fname)
        if not ls:
            others.append(m.get("message", ""))
        for l in ls:
            res.setdefault(l, []).append(m.get("message", ""))
    return res, others


# ------------------------------------------------------------------------------------ C16

DNA = "ACGT"
IUPAC = "ACGTRYSWKMBDHVN-"


def c16_valid_literals(rng, n):
    """[(macro, text)] : every symbol, all word-boundary length classes, long ones, random"""
    lits = []
    for mac, alpha, per_word in (("dna", DNA, 32), ("iupac", IUPAC, 16)):
        lens = [0, 1, 2, 3, per_word - 1, per_word, per_word + 1, 2 * per_word - 1, 2 * per_word, 2 * per_word + 1,
                4 * per_word - 1, 4 * per_word, 4 * per_word + 1, 200, 257]
        lens += [15, 16, 17, 31, 32, 33, 63, 64, 65, 127, 128, 129]
        for L in sorted(set(lens)):
            start = rng.randrange(len(alpha))
            s = "".join(alpha[(start + i) % len(alpha)] if i < len(alpha) else rng.choice(alpha) for i in range(L))
            lits.append((mac, s))
        for c in alpha:                       # every single symbol, and at a word boundary
            lits.append((mac, c))
            lits.append((mac, rng.choice(alpha) * (per_word - 1) + c + rng.choice(alpha)))
    while len(lits) < n:
        mac, alpha, per_word = rng.choice((("dna", DNA, 32), ("iupac", IUPAC, 16)))
        L = rng.choice([rng.randrange(0, 5 * per_word), rng.randrange(0, 40), per_word + rng.randrange(-2, 3)])
        lits.append((mac, "".join(rng.choice(alpha) for _ in range(max(L, 0)))))
    # k-mers: K = 1..32 (usize, u64) and up to 64 (u128)
    ks = [("kmer", "".join(rng.choice(DNA) for _ in range(k))) for k in list(range(1, 33))]
    ks += [("kmer128", "".join(rng.choice(DNA) for _ in range(k))) for k in (1, 31, 32, 33, 40, 48, 63, 64)]
    return lits[:n] + ks


C16_PRELUDE = r'''
use bio_seq::prelude::*;
use std::hash::{Hash, Hasher};
#[derive(Default)]
struct Rec(Vec<u8>);
impl Hasher for Rec {
    fn write(&mut self, b: &[u8]) { self.0.extend_from_slice(b); }
    fn finish(&self) -> u64 { 0 }
}
fn hs<T: Hash + ?Sized>(v: &T) -> Vec<u8> { let mut h = Rec::default(); v.hash(&mut h); h.0 }
fn chk<C: Codec>(id: usize, lit: &SeqSlice<C>, text: &str) {
    let parsed = match Seq::<C>::try_from(text) { Ok(p) => p, Err(e) => { println!("BAD {id} runtime-parser-rejects {e:?}"); return; } };
    let mut bad: Vec<&str> = Vec::new();
    if lit.len() != text.len() || lit.len() != parsed.len() { bad.push("length"); }
    if !(lit == parsed && parsed == lit && *lit == parsed[..]) { bad.push("not-equal"); }
    if lit.to_string() != text { bad.push("display"); }
    if hs(lit) != hs(&parsed) { bad.push("hash"); }
    if lit.len() == parsed.len() { for i in 0..lit.len() { if lit.nth(i) != parsed.nth(i) { bad.push("symbol"); break; } } }
    if bad.is_empty() { println!("OK {id}"); } else { println!("BAD {id} {}", bad.join(",")); }
}
fn chk_k<const K: usize, S: bio_seq::kmer::KmerStorage>(id: usize, k: Kmer<Dna, K, S>, text: &str) {
    let parsed: Seq<Dna> = text.try_into().unwrap();
    let mut bad: Vec<&str> = Vec::new();
    if K != text.len() { bad.push("length"); }
    if k.to_string() != text { bad.push("display"); }
    if !(k == parsed[..]) { bad.push("not-equal"); }
    if hs(&k) != hs(&parsed) { bad.push("hash"); }
    if bad.is_empty() { println!("OK {id}"); } else { println!("BAD {id} {}", bad.join(",")); }
}
'''


def c16_valid_program(lits):
    src = [C16_PRELUDE, "fn main() {"]
    n = 0
    index = []
    for mac, text in lits:
        t = rust_str(text)
        if mac in ("dna", "iupac"):
            src.append(f"    chk({n}, {mac}!({t}), {t});")
            index.append((n, mac, text)); n += 1
        elif mac == "kmer":
            src.append(f"    chk_k({n}, kmer!({t}), {t});")
            index.append((n, "kmer", text)); n += 1
            src.append(f"    chk_k({n}, kmer!({t}, u64), {t});")
            index.append((n, "kmer-u64", text)); n += 1
            src.append(f"    chk_k({n}, kmer!({t}, u128), {t});")
            index.append((n, "kmer-u128", text)); n += 1
        else:
            src.append(f"    chk_k({n}, kmer!({t}, u128), {t});")
            index.append((n, "kmer-u128", text)); n += 1
    src.append(f'    println!("DONE {n}");')
    src.append("}")
    return "\n".join(src) + "\n", index


def c16_invalid_lines(rng, mac, count):
    """[(text, class, pos_class)] one offending character each"""
    alpha = DNA if mac in ("dna", "kmer") else IUPAC
    macro_alpha = set(alpha) | ({"X"} if mac == "iupac" else set())
    per_word = 32 if mac != "iupac" else 16
    offenders = []
    offenders += [(c.lower(), "lower-case") for c in alpha if c.isalpha()]
    if mac != "iupac":
        offenders += [("N", "N/U/X in dna"), ("U", "N/U/X in dna"), ("X", "N/U/X in dna"), ("R", "iupac-letter in dna"), ("-", "gap in dna")]
    else:
        offenders += [("U", "non-iupac letter"), ("Z", "non-iupac letter"), ("E", "non-iupac letter"), (".", "punctuation")]
    offenders += [(d, "digit") for d in "0159"]
    offenders += [(" ", "whitespace"), ("\t", "whitespace"), ("\n", "whitespace"), ("\r", "whitespace"), ("\x0c", "whitespace")]
    offenders += [("\0", "NUL"), ("@", "punctuation"), ("[", "punctuation"), ("`", "punctuation"), ("{", "punctuation"), ("*", "punctuation")]
    offenders += [("é", "non-ascii-2-byte"), ("Ł", "non-ascii-low-byte-A"), ("Ń", "non-ascii-low-byte-C"), ("乁", "non-ascii-3-byte"), ("\U0001F600", "non-ascii-4-byte"), (" ", "non-ascii-space")]
    out = []
    k = 0
    while len(out) < count:
        ch, cls = offenders[k % len(offenders)]
        k += 1
        if ch in macro_alpha:
            continue
        maxlen = 30 if mac == "kmer" else 3 * per_word
        L = rng.choice([1, 2, 5, per_word - 1, per_word, per_word + 1, rng.randrange(1, maxlen)])
        L = min(L, maxlen)
        posc = rng.choice(["first", "last", "mid", "word-boundary"])
        pos = {"first": 0, "last": L - 1, "mid": L // 2, "word-boundary": min(per_word - 1, L - 1)}[posc]
        s = [rng.choice(alpha) for _ in range(L)]
        s[pos] = ch
        out.append(("".join(s), cls, posc))
    return out


def c16_invalid_program(rng, mac, count):
    """-> (source, {line: ('invalid'|'control', text, class, pos)})"""
    inv = c16_invalid_lines(rng, mac, count)
    alpha = DNA if mac in ("dna", "kmer") else IUPAC
    lines = ["#![allow(unused)]", "use bio_seq::prelude::*;", "fn main() {"]
    meta = {}
    for i, (text, cls, posc) in enumerate(inv):
        lines.append(f"    let _ = {mac}!({rust_str(text)});")
        meta[len(lines)] = ("invalid", text, cls, posc)
        if i % 4 == 0:
            ctl = "".join(rng.choice(alpha) for _ in range(rng.randrange(1, 30)))
            lines.append(f"    let _ = {mac}!({rust_str(ctl)});")
            meta[len(lines)] = ("control", ctl, "valid-control", "-")
    lines.append("}")
    return "\n".join(lines) + "\n", meta


def run_c16(pid, tier, seed, wd, env):
    rng = random.Random(seed * 7919 + 16)
    harness = env["HARNESS"]
    run = env["run"]
    res = dict(evaluations=0, cells=set(), fps=set(), samples=[], violations={}, inconclusive=[], counters={}, programs=0,
               disagreements_checked=0)
    g = Path(wd) / "gen"
    g.mkdir(parents=True, exist_ok=True)
    nprog = 1 if tier == "quick" else 8
    per = 300 if tier == "quick" else 400
    # ---------------- valid literals: compile + run in both profiles
    root = setup_crate(g / "valid", "gen_c16_valid", harness, [f"v{i}" for i in range(nprog)])
    indexes = []
    for i in range(nprog):
        lits = c16_valid_literals(rng, per)
        src, index = c16_valid_program(lits)
        (root / "src" / "bin" / f"v{i}.rs").write_text(src)
        indexes.append(index)
    for prof in ("dbg", "rel"):
        for i in range(nprog):   # never run a stale executable of an earlier tree
            (g / "target" / ("release" if prof == "rel" else "debug") / f"v{i}").unlink(missing_ok=True)
        cmd = ["cargo", "build", "--bins", "--target-dir", str(g / "target")] + (["--release"] if prof == "rel" else [])
        rc, out, to, dt = run(cmd, cwd=root, timeout=3600, out_path=Path(wd) / f"gen-valid-build-{prof}.log")
        res["counters"][f"valid-build-{prof}-seconds"] = int(dt)
        if rc != 0:
            # a valid program that does not compile: is it the macros' fault?
            errs = [l for l in out.splitlines() if l.startswith("error")]
            mac_err = [e for e in errs if "Invalid" in e or "Non-ASCII" in e or "proc macro panicked" in e or "proc-macro" in e]
            if mac_err:
                res["violations"][f"{pid}|literal-macro|valid-literal|does-not-compile|{prof}"] = \
                    f"a program of valid literals failed to compile ({prof}): " + "; ".join(mac_err[:5]) + f" [log {wd}/gen-valid-build-{prof}.log]"
            else:
                res["inconclusive"].append(f"generated valid-literal program failed to build ({prof}) for a reason not attributable to the literal macros; see {wd}/gen-valid-build-{prof}.log")
            continue
        for i in range(nprog):
            exe = g / "target" / ("release" if prof == "rel" else "debug") / f"v{i}"
            rc, out, to, dt = run([str(exe)], cwd=root, timeout=600, out_path=Path(wd) / f"gen-valid-run-{prof}-{i}.log")
            res["programs"] += 1
            index = indexes[i]
            seen = {}
            for line in out.splitlines():
                m = re.match(r"^(OK|BAD) (\d+)(?: (.*))?$", line)
                if m:
                    seen[int(m.group(2))] = (m.group(1), m.group(3) or "")
            done = re.search(r"^DONE (\d+)$", out, re.M)
            if not done or int(done.group(1)) != len(index):
                # ended early: a panic inside the generated program is an observation about the macros' output
                tail = "\n".join(out.splitlines()[-6:])
                res["violations"][f"{pid}|literal-macro|valid-literal|program-aborts|{prof}"] = \
                    f"generated program v{i} ({prof}) ended after {len(seen)} of {len(index)} literals (rc={rc}): {tail}"
            for (n, mac, text) in index:
                st = seen.get(n)
                if st is None:
                    continue
                res["evaluations"] += 1
                res["disagreements_checked"] += 1
                pw = 16 if mac == "iupac" else 32
                L = len(text)
                lc = "0" if L == 0 else "1" if L == 1 else ("w%d%s" % (min(L // pw, 4), "eq" if L % pw == 0 else "+1" if L % pw == 1 else "-1" if L % pw == pw - 1 else "mid"))
                res["cells"].add(f"{mac}/{lc}/{prof}")
                res["fps"].add(hash((mac, text)) & 0xFFFFFFFFFFFF)
                if st[0] == "BAD":
                    kinds = st[1]
                    res["violations"].setdefault(f"{pid}|{mac}!|valid-literal|differs-from-runtime-parse|{kinds.split(',')[0]}",
                                                 f"{mac}!({text[:80]!r}) (len {L}, {prof}) differs from runtime parsing: {kinds}")
        if prof == "dbg":
            for (n, mac, text) in indexes[0][:3] + indexes[0][-2:]:
                res["samples"].append({"program": "valid", "macro": mac, "literal": text[:70], "len": len(text)})
    # ---------------- invalid literals: every line must be a compile error
    bins = ["bad_dna", "bad_iupac", "bad_kmer"]
    root = setup_crate(g / "invalid", "gen_c16_invalid", harness, bins)
    count = 80 if tier == "quick" else 500
    metas = {}
    for b in bins:
        src, meta = c16_invalid_program(rng, b[4:], count)
        (root / "src" / "bin" / f"{b}.rs").write_text(src)
        metas[b] = meta
    cmd = ["cargo", "build", "--bins", "--keep-going", "--message-format=json", "--target-dir", str(g / "target")]
    rc, out, to, dt = run(cmd, cwd=root, timeout=3600, out_path=Path(wd) / "gen-invalid-build.log")
    res["counters"]["invalid-build-seconds"] = int(dt)
    if to:
        res["inconclusive"].append("invalid-literal build timed out")
    for b in bins:
        errs, others = cargo_json_errors(out, f"{b}.rs")
        meta = metas[b]
        n_inv = sum(1 for v in meta.values() if v[0] == "invalid")
        res["programs"] += 1
        if not errs and n_inv:
            if '"reason":"compiler-message"' not in out and '"reason":"build-finished"' not in out:
                res["inconclusive"].append(f"no compiler output for {b}; see {wd}/gen-invalid-build.log")
                continue
        for line, (kind, text, cls, posc) in sorted(meta.items()):
            res["evaluations"] += 1
            res["disagreements_checked"] += 1
            mac = b[4:]
            res["cells"].add(f"{mac}/invalid/{cls}/{posc}" if kind == "invalid" else f"{mac}/control")
            res["fps"].add(hash((mac, text, kind)) & 0xFFFFFFFFFFFF)
            has = line in errs
            if kind == "invalid" and not has:
                res["violations"].setdefault(f"{pid}|{mac}!|invalid-literal|compiles|{cls}",
                                             f"{mac}!({text!r}) — offending character class '{cls}' at {posc} position — produced no compile error (line {line} of {b}.rs)")
            if kind == "control" and has:
                res["violations"].setdefault(f"{pid}|{mac}!|valid-literal|rejected-at-compile-time",
                                             f"{mac}!({text!r}) is valid but got a compile error: {errs[line][:2]}")
        for line, (kind, text, cls, posc) in list(sorted(meta.items()))[:2]:
            res["samples"].append({"program": b, "line": line, "kind": kind, "literal": text, "class": cls, "position": posc,
                                   "diagnostic": (errs.get(line) or ["<none>"])[0][:120]})
    res["rule"] = ("stage 1 (accelerator, when available): dna_seq/iupac_seq called directly on 2x10^4 (thorough 10^6) strings per macro and compared bit for bit with the runtime parser. "
                   "stage 2 (authoritative): generated programs compiled with the real macros — valid literals of every symbol and every length class "
                   "(0,1,2,3, 15/16/17, 31/32/33, 63/64/65, 127/128/129, 200, 257, random) for dna!, iupac!, kmer! K=1..32 on usize/u64 and K<=64 on u128, each compared at run time with "
                   "Seq::try_from(same text) (==, len, display, recorded hash stream, per symbol) in debug and release; and one batch per macro of invalid literals "
                   "(lower case, N/U/X/- in dna!, non-IUPAC letters, digits, whitespace incl. \\t \\n \\r \\x0c, NUL, punctuation, 2/3/4-byte UTF-8) at first/mid/last/word-boundary position, "
                   "one per line with interleaved valid controls: every invalid line must carry >=1 rustc error (mapped through macro expansion spans), no control line may. "
                   "Distinct = (macro, literal text); all non-trivial.")
    res["level"] = "exploration"
    # keep sources and logs, drop build output
    return res


# ------------------------------------------------------------------------------------ C17

LETTERS = "ABCDEFGHIJKLMNOPQRSTUVWXYZ"
DISPLAY_POOL = [c for c in "abcdefghijklmnopqrstuvwxyz0123456789*-.?!+#%&/<=>@^_~|$:;,()[]{}"]


def lit(v, style):
    if style == "dec":
        return str(v)
    if style == "bin":
        return "0b" + format(v, "b")
    if style == "bin_":
        b = format(v, "08b")
        return "0b" + b[:4] + "_" + b[4:]
    if style == "hex":
        return "0x" + format(v, "X")
    if style == "hexl":
        return "0x" + format(v, "02x")
    if style == "suffix":
        return f"{v}u8"
    if style == "byte":
        ch = chr(v)
        if 0x21 <= v < 0x7F and ch not in "'\\":
            return f"b'{ch}'"
        return f"b'\\x{v:02x}'" if v < 0x80 else str(v)
    raise ValueError(style)


STYLES = ["dec", "bin", "bin_", "hex", "hexl", "byte"]


def char_lit(c):
    ch = chr(c)
    if ch == "'":
        return "'\\''"
    if ch == "\\":
        return "'\\\\'"
    return f"'{ch}'"


def gen_decl(rng, name, nvar=None, max_disc=None, bits=None, with_alts=None, with_display=None):
    """a well-formed declaration as data"""
    nvar = nvar or rng.choice([2, 2, 3, 4, 5, 8, 12, 16, 21, 26, 33, 40])
    hi = 255 if max_disc is None else max_disc
    nvar = min(nvar, hi + 1)
    if max_disc is None:
        hi = rng.choice([nvar - 1, nvar, 3, 7, 15, 16, 31, 63, 64, 127, 128, 200, 254, 255])
        hi = max(hi, nvar - 1)
    discs = rng.sample(range(0, hi + 1), nvar)
    if max_disc is not None and max_disc not in discs:
        discs[rng.randrange(nvar)] = max_disc
    free = [v for v in range(256) if v not in discs]
    rng.shuffle(free)
    # names: distinct first letters unless a display char is given
    first = list(LETTERS)
    rng.shuffle(first)
    disp_pool = DISPLAY_POOL[:]
    rng.shuffle(disp_pool)
    used_chars = set()
    variants = []
    with_alts = rng.random() < 0.6 if with_alts is None else with_alts
    with_display = rng.random() < 0.6 if with_display is None else with_display
    for i, dv in enumerate(discs):
        need_display = i >= len(first) or (with_display and rng.random() < 0.4)
        if i < len(first):
            nm = first[i] + rng.choice(["", "x", "Var", "Masked", "2", "_a"])
        else:
            nm = f"V{i}x"
        if not need_display and ord(nm[0]) in used_chars:
            need_display = True
        if need_display:
            ch = None
            while disp_pool:
                c = disp_pool.pop()
                if ord(c) not in used_chars and c not in (l for l in first[i + 1:len(discs)]):
                    ch = ord(c)
                    break
            if ch is None:
                ch = ord(nm[0])
            display = ch
        else:
            ch = ord(nm[0])
            display = None
        if ch in used_chars:
            # give up on this variant's display: pick any unused printable byte
            ch = next(c for c in range(0x21, 0x7F) if c not in used_chars and chr(c) not in "'\\")
            display = ch
        used_chars.add(ch)
        alts = []
        if with_alts and free and rng.random() < 0.5:
            for _ in range(rng.choice([1, 1, 2, 3, 5])):
                if free:
                    alts.append(free.pop())
        split = sorted(rng.sample(range(len(alts)), rng.randrange(0, len(alts)))) if len(alts) > 1 and rng.random() < 0.5 else []
        variants.append(dict(name=nm, disc=dv, style=rng.choice(STYLES), alts=[(a, rng.choice(STYLES[:5])) for a in alts],
                             alt_split=split, display=display, ch=ch, attr_order=rng.random() < 0.3))
    mx = max(discs)
    minb = mx.bit_length()
    if bits == "none":
        b = None
    elif bits is not None:
        b = bits
    else:
        b = rng.choice([None, None, minb, min(8, minb + 1), 8]) if minb <= 8 else None
        if b is not None and b < minb:
            b = minb
        if b == 0:
            b = None
    return dict(name=name, bits=b, variants=variants)


def emit_enum(d):
    """Rust source of the enum declaration + its EDecl static"""
    out = ["#[derive(Clone, Copy, Debug, PartialEq, Eq, Hash, Codec)]"]
    if d["bits"] is not None:
        out.append(f"#[bits({d['bits']})]")
    out.append("#[repr(u8)]")
    out.append(f"pub enum {d['name']} {{")
    for v in d["variants"]:
        if v["display"] is not None and not v.get("attr_order"):
            out.append(f"    #[display({char_lit(v['display'])})]")
        if v["alts"]:
            # the alternatives may be spread over several #[alt(..)] attributes (v["alt_split"])
            groups, cur = [], []
            for j, (a_, s_) in enumerate(v["alts"]):
                cur.append(lit(a_, s_))
                if j in v.get("alt_split", ()):
                    groups.append(cur); cur = []
            if cur:
                groups.append(cur)
            for gi, g_ in enumerate(groups):
                out.append("    #[alt(" + ", ".join(g_) + ("," if (len(g_) + gi) % 3 == 0 else "") + ")]")
        if v["display"] is not None and v.get("attr_order"):
            out.append(f"    #[display({char_lit(v['display'])})]")   # after the #[alt] attributes
        out.append(f"    {v['name']} = {lit(v['disc'], v['style'])},")
    out.append("}")
    dn = d["name"].upper() + "_DECL"
    out.append(f"pub static {dn}: EDecl = EDecl {{ name: {rust_str(d['name'])}, bits: {('Some(%d)' % d['bits']) if d['bits'] is not None else 'None'}, variants: &[")
    for v in d["variants"]:
        alts = ", ".join(str(a) for a, _ in v["alts"])
        out.append(f"    VDecl {{ name: {rust_str(v['name'])}, disc: {v['disc']}, alts: &[{alts}], ch: {v['ch']} }},")
    out.append("] };")
    return "\n".join(out) + "\n"


def corner_decls(rng):
    """always included: the width corners"""
    ds = []
    i = 0
    for mx in (1, 2, 3, 4, 7, 8, 15, 16, 127, 128, 254, 255):
        ds.append(gen_decl(rng, f"Corner{i}", nvar=rng.choice([2, 3, 4]), max_disc=mx, bits="none")); i += 1
    for (mx, b) in ((1, 1), (5, 3), (100, 7), (255, 8), (3, 8), (128, 8)):
        ds.append(gen_decl(rng, f"Corner{i}", nvar=2, max_disc=mx, bits=b)); i += 1
    ds.append(gen_decl(rng, f"Corner{i}", nvar=40, with_alts=True, with_display=True)); i += 1
    ds.append(gen_decl(rng, f"Corner{i}", nvar=26, with_alts=True, with_display=False, bits="none")); i += 1
    return ds


C17_HEAD = """#![allow(non_camel_case_types, dead_code, unreachable_patterns)]
use bio_seq::prelude::*;
use bsv::derive_check::{check_enum, EDecl, VDecl};
"""


def c17_program(decls):
    src = [C17_HEAD]
    for d in decls:
        src.append(emit_enum(d))
    src.append("fn main() {")
    src.append("    bsv::util::install_quiet_panic_hook();")
    for i, d in enumerate(decls):
        dn = d["name"].upper() + "_DECL"
        src.append(f"    let r = bsv::util::observe(|| check_enum::<{d['name']}>(&{dn}));")
        src.append(f"    match r {{ Ok(b) if b.is_empty() => println!(\"OK {i}\"), Ok(b) => for (c, s) in b {{ println!(\"BAD {i} {{}} ## {{}}\", c, s.replace('\\n', \" \")); }}, Err(p) => println!(\"BAD {i} check|panics ## {{}}\", p.replace('\\n', \" \")) }}")
    src.append(f'    println!("DONE {len(decls)}");')
    src.append("}")
    return "\n".join(src) + "\n"


MALFORMED = [
    ("bits-too-small", "#[derive(Clone, Copy, Debug, PartialEq, Eq, Hash, Codec)]\n#[bits(2)]\n#[repr(u8)]\npub enum M{i} {{ A = 0, B = 1, C = 4 }}"),
    ("bits-too-small-255", "#[derive(Clone, Copy, Debug, PartialEq, Eq, Hash, Codec)]\n#[bits(7)]\n#[repr(u8)]\npub enum M{i} {{ A = 0, B = 255 }}"),
    ("bits-too-small-pow2", "#[derive(Clone, Copy, Debug, PartialEq, Eq, Hash, Codec)]\n#[bits(3)]\n#[repr(u8)]\npub enum M{i} {{ A = 0, B = 8 }}"),
    ("missing-discriminant", "#[derive(Clone, Copy, Debug, PartialEq, Eq, Hash, Codec)]\n#[repr(u8)]\npub enum M{i} {{ A = 0, B, C = 2 }}"),
    ("no-discriminants", "#[derive(Clone, Copy, Debug, PartialEq, Eq, Hash, Codec)]\npub enum M{i} {{ A, B }}"),
    ("float-discriminant", "#[derive(Clone, Copy, Debug, PartialEq, Eq, Hash, Codec)]\npub enum M{i} {{ A = 0, B = 1.5 }}"),
    ("string-discriminant", "#[derive(Clone, Copy, Debug, PartialEq, Eq, Hash, Codec)]\npub enum M{i} {{ A = 0, B = \"x\" }}"),
    ("struct", "#[derive(Clone, Copy, Debug, PartialEq, Eq, Hash, Codec)]\npub struct M{i} {{ a: u8 }}"),
    ("tuple-struct", "#[derive(Clone, Copy, Debug, PartialEq, Eq, Hash, Codec)]\npub struct M{i}(u8);"),
    ("union", "#[derive(Clone, Copy, Codec)]\npub union M{i} {{ a: u8, b: u8 }}"),
]


def c17_malformed_program():
    lines = ["#![allow(unused)]", "use bio_seq::prelude::*;"]
    meta = {}
    for i, (kind, tmpl) in enumerate(MALFORMED):
        start = len(lines) + 1
        for l in tmpl.replace("{i}", str(i)).replace("{{", "{").replace("}}", "}").split("\n"):
            lines.append(l)
        meta[(start, len(lines))] = ("malformed", kind)
        # a well-formed control between them
        start = len(lines) + 1
        lines.append("#[derive(Clone, Copy, Debug, PartialEq, Eq, Hash, Codec)]")
        lines.append("#[repr(u8)]")
        lines.append(f"pub enum Ctl{i} {{ A = 0, B = {i + 1} }}")
        meta[(start, len(lines))] = ("control", f"Ctl{i}")
    lines.append("fn main() {}")
    return "\n".join(lines) + "\n", meta


def run_c17(pid, tier, seed, wd, env):
    rng = random.Random(seed * 104729 + 17)
    harness = env["HARNESS"]
    run = env["run"]
    res = dict(evaluations=0, cells=set(), fps=set(), samples=[], violations={}, inconclusive=[], counters={}, programs=0,
               disagreements_checked=0)
    g = Path(wd) / "gen"
    g.mkdir(parents=True, exist_ok=True)
    nprog = 1 if tier == "quick" else 8
    per = 40 if tier == "quick" else 75
    progs = []
    bsv_dep = f'bsv = {{ path = "{harness}" }}\n'
    root = setup_crate(g / "wellformed", "gen_c17", harness, [f"e{i}" for i in range(nprog)], extra_deps=bsv_dep)
    for i in range(nprog):
        decls = corner_decls(rng) if i == 0 else []
        while len(decls) < per:
            decls.append(gen_decl(rng, f"E{i}_{len(decls)}"))
        (root / "src" / "bin" / f"e{i}.rs").write_text(c17_program(decls))
        progs.append(decls)
    for prof in ("dbg", "rel"):
        for i in range(nprog):   # never run a stale executable of an earlier tree
            (g / "target" / ("release" if prof == "rel" else "debug") / f"e{i}").unlink(missing_ok=True)
        cmd = ["cargo", "build", "--bins", "--keep-going", "--message-format=json", "--target-dir", str(g / "target")] + (["--release"] if prof == "rel" else [])
        rc, out, to, dt = run(cmd, cwd=root, timeout=3600, out_path=Path(wd) / f"gen-derive-build-{prof}.log")
        res["counters"][f"derive-build-{prof}-seconds"] = int(dt)
        for i in range(nprog):
            decls = progs[i]
            exe = g / "target" / ("release" if prof == "rel" else "debug") / f"e{i}"
            errs, others = cargo_json_errors(out, f"e{i}.rs")
            if errs or not exe.exists() or rc != 0 and any("e%d" % i in o for o in others):
                # a declaration that must be accepted was refused (or made the macro panic)
                src_lines = (root / "src" / "bin" / f"e{i}.rs").read_text().splitlines()
                for line, msgs in sorted(errs.items())[:5]:
                    # find the enum this line belongs to
                    nm = "?"
                    # the derive attribute sits up to three lines above `pub enum`; otherwise look backwards
                    cand = list(range(line - 1, min(line + 3, len(src_lines)))) + list(range(line - 2, -1, -1))
                    for j in cand:
                        m = re.match(r"pub enum (\w+)", src_lines[j])
                        if m:
                            nm = m.group(1); break
                    d = next((x for x in decls if x["name"] == nm), None)
                    panic = any("panicked" in m for m in msgs)
                    key = f"{pid}|derive(Codec)|well-formed-declaration|{'macro-panics' if panic else 'refused'}|{prof}"
                    res["violations"].setdefault(key, f"well-formed enum {nm} (max discriminant {max(v['disc'] for v in d['variants']) if d else '?'}, bits {d['bits'] if d else '?'}) does not compile in {prof}: {msgs[0][:300]} (e{i}.rs line {line})")
                if not errs and not exe.exists():
                    res["inconclusive"].append(f"generated derive program e{i} ({prof}) did not build for a reason not attributable to the derive; see {wd}/gen-derive-build-{prof}.log")
                if not exe.exists():
                    continue
            rc2, o2, to2, dt2 = run([str(exe)], cwd=root, timeout=900, out_path=Path(wd) / f"gen-derive-run-{prof}-{i}.log")
            res["programs"] += 1
            done = re.search(r"^DONE (\d+)$", o2, re.M)
            if not done:
                res["violations"][f"{pid}|derive(Codec)|generated-program-aborts|{prof}"] = f"program e{i} ({prof}) ended rc={rc2} without completing: " + "\n".join(o2.splitlines()[-5:])
            seen_ok = set(int(m.group(1)) for m in re.finditer(r"^OK (\d+)$", o2, re.M))
            for m in re.finditer(r"^BAD (\d+) (\S+) ## (.*)$", o2, re.M):
                k = int(m.group(1))
                d = decls[k]
                res["violations"].setdefault(f"{pid}|derive(Codec)|{m.group(2)}",
                                             f"({prof}) {m.group(3)[:600]} — declaration: {len(d['variants'])} variants, max discriminant {max(v['disc'] for v in d['variants'])}, bits {d['bits']}, alts {sum(len(v['alts']) for v in d['variants'])}")
            for k, d in enumerate(decls):
                res["evaluations"] += 1
                res["disagreements_checked"] += 1
                mx = max(v["disc"] for v in d["variants"])
                res["cells"].add(f"width={'declared' if d['bits'] is not None else 'minimal'}/maxdisc-bits={mx.bit_length()}/{prof}")
                res["cells"].add(f"variants={min(len(d['variants']) // 8 * 8, 40)}/alts={'yes' if any(v['alts'] for v in d['variants']) else 'no'}/display={'yes' if any(v['display'] is not None for v in d['variants']) else 'no'}")
                for v in d["variants"]:
                    res["cells"].add(f"literal-style/{v['style']}")
                res["fps"].add(hash(json.dumps(d, sort_keys=True)) & 0xFFFFFFFFFFFF)
        if prof == "dbg":
            for d in progs[0][:2] + progs[0][-2:]:
                res["samples"].append({"declaration": emit_enum(d).split("pub static")[0]})
    # ---------------- malformed declarations must be compile errors on their own item
    root = setup_crate(g / "malformed", "gen_c17_bad", harness, ["bad"])
    src, meta = c17_malformed_program()
    (root / "src" / "bin" / "bad.rs").write_text(src)
    cmd = ["cargo", "build", "--bins", "--keep-going", "--message-format=json", "--target-dir", str(g / "target")]
    rc, out, to, dt = run(cmd, cwd=root, timeout=3600, out_path=Path(wd) / "gen-derive-malformed.log")
    errs, others = cargo_json_errors(out, "bad.rs")
    res["programs"] += 1
    if not errs and '"reason":"compiler-message"' not in out:
        res["inconclusive"].append(f"no compiler output for malformed declarations; see {wd}/gen-derive-malformed.log")
    else:
        for (a, b), (kind, what) in sorted(meta.items()):
            res["evaluations"] += 1
            res["disagreements_checked"] += 1
            hit = [m for l, ms in errs.items() if a <= l <= b for m in ms]
            res["cells"].add(f"malformed/{what}" if kind == "malformed" else "malformed/control")
            res["fps"].add(hash((kind, what)) & 0xFFFFFFFFFFFF)
            if kind == "malformed" and not hit:
                res["violations"].setdefault(f"{pid}|derive(Codec)|malformed-declaration|compiles|{what}", f"malformed declaration ({what}) at bad.rs lines {a}-{b} produced no compile error")
            if kind == "malformed" and any("panicked" in m for m in hit):
                res["violations"].setdefault(f"{pid}|derive(Codec)|malformed-declaration|macro-panics|{what}", f"malformed declaration ({what}) makes the derive panic instead of reporting an error: {hit[0][:200]}")
            if kind == "control" and hit:
                res["violations"].setdefault(f"{pid}|derive(Codec)|well-formed-declaration|refused|control", f"well-formed control {what} got an error: {hit[0][:200]}")
        res["samples"].append({"malformed": [k for k, _ in MALFORMED], "errors_on_lines": sorted(errs)[:20]})
    res["rule"] = ("stage 1 (accelerator, when available): parse_width for all 256 largest discriminants x declared width {none,1..8}, parse_variants on generated declarations. "
                   "stage 2 (authoritative): generated enum declarations as plain source (2..40 variants, distinct discriminants in 0..=255 written as decimal / 0b / 0b_ / 0x / byte literals, "
                   "optional #[alt] lists disjoint from all discriminants (in one or spread over several #[alt] attributes, with or without trailing comma, before or after #[display]), optional #[display], optional #[bits] from minimal to 8; corner set always included: largest discriminant "
                   "1,2,3,4,7,8,15,16,127,128,254,255 without #[bits], and declared widths 1,3,7,8) compiled with the real derive in debug and release; each enum is judged at run time by "
                   "derive_check::check_enum against its own declaration (BITS, items order/encoding, display, all 256 bit patterns, all 256 bytes as characters, unchecked decoders, and Seq<Derived> "
                   "parse/display/packing/slicing/reverse/windows/kmers laws); malformed declarations (too-small width x3, missing / no / float / string discriminants, struct, tuple struct, union) "
                   "must produce an error on their own item without a macro panic, interleaved well-formed controls must not. Distinct = declaration.")
    res["level"] = "exploration"
    return res


def run(pid, tier, seed, wd, env):
    r = run_c16(pid, tier, seed, wd, env) if pid == "C16" else run_c17(pid, tier, seed, wd, env)
    # build output of the generated crates stays under work/<ID>/gen/target (gitignored) so that the
    # dependency builds are reused by the next run; BSV_DROP_GEN_TARGET=1 removes it
    t = Path(wd) / "gen" / "target"
    if t.exists() and os.environ.get("BSV_DROP_GEN_TARGET") == "1":
        shutil.rmtree(t, ignore_errors=True)
    r["cells"] = sorted(r["cells"])
    r["fps"] = sorted(r["fps"])
    return r
