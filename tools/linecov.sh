#!/bin/bash
# Line/region coverage of /repo's bio-seq sources by the native dbg stage of every monitor (quick tier).
# Development aid, not a registered check: it answers "which library code do the monitors never drive?"
# (runtime monitoring says nothing about unreached code).  Builds into a scratch target dir outside /verif
# and removes it afterwards.  Output: /verif/work/linecov/{summary.txt,uncovered.txt}
#   usage: tools/linecov.sh [tier]    (tier: quick | thorough, default quick)
set -u
TIER=${1:-quick}
V=/verif
T=/tmp/bsv-cov-target
OUT=$V/work/linecov
BIN=$(rustc +nightly --print sysroot)/lib/rustlib/x86_64-unknown-linux-gnu/bin
rm -rf "$OUT"; [ "${KEEP_TARGET:-0}" = 1 ] || rm -rf "$T"; mkdir -p "$OUT/prof"
cd $V/harness || exit 2
export CARGO_NET_OFFLINE=true
LLVM_PROFILE_FILE=/dev/null RUSTFLAGS="-Cinstrument-coverage" cargo +nightly build --bins --target-dir "$T" >"$OUT/build.log" 2>&1 || { echo "build failed, see $OUT/build.log"; exit 2; }
objs=""
for i in $(seq -w 1 20); do
  b=$T/debug/c$i
  [ -x "$b" ] || continue
  LLVM_PROFILE_FILE="$OUT/prof/c$i-%p.profraw" "$b" --variant dbg --tier "$TIER" --budget native --seed 1 --shard 0/1 --out "$OUT/c$i.json" >"$OUT/c$i.log" 2>&1 &
  objs="$objs -object $b"
done
wait
for b in c16inc c17inc; do
  [ -x "$T/debug/$b" ] && { LLVM_PROFILE_FILE="$OUT/prof/$b-%p.profraw" "$T/debug/$b" --variant dbg --tier "$TIER" --budget native --seed 1 --shard 0/1 --out "$OUT/$b.json" >"$OUT/$b.log" 2>&1; objs="$objs -object $T/debug/$b"; }
done
SRC=$(readlink -f $V/harness/repo)
# one report per binary (merging objects makes llvm-cov drop "mismatched" functions), then the union of line counts
for b in $T/debug/c??  $T/debug/c16inc $T/debug/c17inc; do
  n=$(basename $b)
  ls "$OUT"/prof/$n-*.profraw >/dev/null 2>&1 || continue
  "$BIN/llvm-profdata" merge -sparse "$OUT"/prof/$n-*.profraw -o "$OUT/$n.profdata" || exit 2
  "$BIN/llvm-cov" export "$b" -instr-profile="$OUT/$n.profdata" -format=lcov --ignore-filename-regex='(\.cargo|rustc|harness/src)' >"$OUT/$n.lcov" 2>>"$OUT/cov.err"
done
python3 - "$OUT" <<'PY'
import sys, glob, collections, os
out = sys.argv[1]
cnt = collections.defaultdict(lambda: collections.defaultdict(int))
fns = collections.defaultdict(lambda: collections.defaultdict(int))
for f in glob.glob(out + "/*.lcov"):
    cur = None
    for l in open(f):
        l = l.rstrip("\n")
        if l.startswith("SF:"):
            cur = os.path.realpath(l[3:])
        elif l.startswith("DA:") and cur:
            a, b = l[3:].split(",")[:2]
            cnt[cur][int(a)] += int(b)
        elif l.startswith("FNDA:") and cur:
            c, name = l[5:].split(",", 1)
            fns[cur][name] += int(c)
tot = miss = 0
with open(out + "/summary.txt", "w") as s, open(out + "/uncovered.txt", "w") as u:
    for f in sorted(cnt):
        if "/bio-seq" not in f:
            continue
        lines = cnt[f]
        m = sorted(n for n, c in lines.items() if c == 0)
        tot += len(lines); miss += len(m)
        s.write("%-60s lines %4d missed %4d  %5.1f%%\n" % (f, len(lines), len(m), 100.0 * (len(lines) - len(m)) / max(1, len(lines))))
        src = open(f).read().split("\n") if os.path.exists(f) else []
        for n in m:
            u.write("%s:%d: %s\n" % (f, n, src[n - 1] if n - 1 < len(src) else ""))
    s.write("TOTAL lines %d missed %d  %.1f%%\n" % (tot, miss, 100.0 * (tot - miss) / max(1, tot)))
PY
[ "${KEEP_TARGET:-0}" = 1 ] || rm -rf "$T"
rm -rf "$OUT/prof"
cat "$OUT/summary.txt"
echo "uncovered lines: $(wc -l <"$OUT/uncovered.txt")  (see $OUT/uncovered.txt; source root $SRC)"
