#!/bin/bash
# usage: tools/seedtest.sh <patch.diff> <ID> [quick|thorough]
# applies a seeded change to /repo, runs the check, and always restores /repo
set -u
patch="$1"; id="$2"; tier="${3:-quick}"
cd /repo || exit 3
if [ -n "$(git status --porcelain)" ]; then echo "/repo not clean"; exit 3; fi
git apply "$patch" || { echo "patch does not apply"; exit 3; }
trap 'git -C /repo checkout -- . ; git -C /repo clean -fdq -- bio-seq bio-seq-derive >/dev/null 2>&1' EXIT
# the evidence file of the property describes the UNCHANGED tree: keep it out of harm's way
ev=/verif/evidence/$id.json; bak=/verif/work/.evidence-$id.bak
[ -f "$ev" ] && cp "$ev" "$bak"
cd /verif && ./check "$id" "$tier"
rc=$?
[ -f "$bak" ] && mv "$bak" "$ev"
echo "seedtest: $patch -> $id $tier rc=$rc"
exit $rc
