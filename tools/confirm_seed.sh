#!/bin/bash
# usage: tools/confirm_seed.sh <seed-id> <seed-dir>   e.g. C03a /tmp/seeded/C03a
# Confirms in the scratch worktree /tmp/wt/<PROP>: demo passes without the change; with the change the
# workspace compiles, the pinned test suite passes, and the demo fails.  Writes <seed-dir>/confirm.json
set -u
id="$1"; dir="$2"; prop="${id:0:3}"; wt="/tmp/wt/$prop"
feat="translation,extra_codecs,serde"
cd "$wt" || exit 3
git checkout -q -- . ; git clean -fdq
if grep -q "trybuild" "$dir/demo.rs"; then ddir="bio-seq-derive/tests"; pkg="bio-seq-derive"; fopt=""; else ddir="bio-seq/tests"; pkg="bio-seq"; fopt="--features $feat"; fi
mkdir -p "$ddir"; cp "$dir/demo.rs" "$ddir/demo_seed.rs"
clean_rc=0; cargo test --offline -p $pkg $fopt --test demo_seed > "$dir/confirm-demo-clean.log" 2>&1 || clean_rc=$?
git apply "$dir/patch.diff" || { echo "{\"id\":\"$id\",\"error\":\"patch does not apply\"}" > "$dir/confirm.json"; exit 3; }
rm -f "$ddir/demo_seed.rs"
suite_rc=0; cargo test --workspace --no-fail-fast --offline > "$dir/confirm-suite.log" 2>&1 || suite_rc=$?
passed=$(grep -E "^test result: ok" "$dir/confirm-suite.log" | awk '{s+=$4} END {print s+0}')
cp "$dir/demo.rs" "$ddir/demo_seed.rs"
demo_rc=0; cargo test --offline -p $pkg $fopt --test demo_seed > "$dir/confirm-demo-patched.log" 2>&1 || demo_rc=$?
git checkout -q -- . ; git clean -fdq
echo "{\"id\":\"$id\",\"demo_clean_rc\":$clean_rc,\"suite_patched_rc\":$suite_rc,\"suite_tests_passed\":$passed,\"demo_patched_rc\":$demo_rc}" > "$dir/confirm.json"
cat "$dir/confirm.json"
