//! Oracle for `#[derive(Codec)]`: the enum declaration itself, kept as data.
//! Used by the in-harness corner set (bin c17) and by every generated program (lib/gen.py).

use crate::model;
use crate::util::observe;
use bio_seq::prelude::*;

#[derive(Debug, Clone)]
pub struct VDecl {
    pub name: &'static str,
    pub disc: u8,
    pub alts: &'static [u8],
    /// display character (declared, or first letter of the name)
    pub ch: u8,
}
#[derive(Debug, Clone)]
pub struct EDecl {
    pub name: &'static str,
    /// declared width, if any
    pub bits: Option<u8>,
    pub variants: &'static [VDecl],
}

impl EDecl {
    pub fn max_disc(&self) -> u8 {
        self.variants.iter().map(|v| v.disc).max().unwrap_or(0)
    }
    /// smallest number of bits that can hold the largest discriminant
    pub fn min_bits(&self) -> u8 {
        (8 - self.max_disc().leading_zeros()) as u8
    }
    pub fn expected_bits(&self) -> u8 {
        self.bits.unwrap_or(self.min_bits())
    }
    /// index of the variant owning bit pattern b (as discriminant or alternative)
    pub fn owner_of_bits(&self, b: u8) -> Option<usize> {
        self.variants.iter().position(|v| v.disc == b || v.alts.contains(&b))
    }
    pub fn owner_of_char(&self, c: u8) -> Option<usize> {
        self.variants.iter().position(|v| v.ch == c)
    }
}

/// All disagreements between the derived implementation `E` and its declaration `d`,
/// as (signature class, detail).
pub fn check_enum<E: Codec>(d: &EDecl) -> Vec<(String, String)> {
    let mut bad: Vec<(String, String)> = Vec::new();
    let mut v = |class: &str, detail: String| {
        if bad.len() < 40 {
            bad.push((class.to_string(), format!("enum {}: {detail}", d.name)));
        }
    };
    // width
    if E::BITS != d.expected_bits() {
        v("BITS|wrong-width", format!("BITS = {} but the declaration ({}) gives {} (largest discriminant {})", E::BITS, match d.bits { Some(b) => format!("#[bits({b})]"), None => "no #[bits]".to_string() }, d.expected_bits(), d.max_disc()));
    }
    // items(): the variants in declaration order, each encoding to its discriminant
    let items: Vec<E> = E::items().collect();
    let got: Vec<u8> = items.iter().map(|x| x.to_bits()).collect();
    let want: Vec<u8> = d.variants.iter().map(|x| x.disc).collect();
    if got != want {
        v("items|order-or-encoding", format!("items() encode to {:?}, declaration order is {:?}", got, want));
        return bad; // everything below indexes items by declaration order
    }
    for (i, vd) in d.variants.iter().enumerate() {
        let c = items[i].to_char();
        if c as u32 != vd.ch as u32 {
            v("to_char|wrong-display", format!("variant {} prints as {:?}, declared/default display is {:?}", vd.name, c, vd.ch as char));
        }
    }
    // all 256 bit patterns
    for b in 0..=255u8 {
        let want = d.owner_of_bits(b);
        match (want, E::try_from_bits(b)) {
            (Some(i), Some(x)) => {
                if x != items[i] {
                    v("try_from_bits|wrong-variant", format!("try_from_bits({b}) = {:?}, pattern belongs to {}", x, d.variants[i].name));
                }
                match observe(|| E::unsafe_from_bits(b)) {
                    Ok(u) if u == items[i] => {}
                    Ok(u) => v("unsafe_from_bits|disagrees", format!("unsafe_from_bits({b}) = {:?}, pattern belongs to {}", u, d.variants[i].name)),
                    Err(p) => v("unsafe_from_bits|panics", format!("unsafe_from_bits({b}) panicked ({p}) for a pattern of {}", d.variants[i].name)),
                }
            }
            (Some(i), None) => v("try_from_bits|refuses-declared", format!("try_from_bits({b}) = None, the pattern is the discriminant or an alternative of {}", d.variants[i].name)),
            (None, Some(x)) => v("try_from_bits|accepts-undeclared", format!("try_from_bits({b}) = Some({:?}) but no variant declares that pattern", x)),
            (None, None) => {}
        }
    }
    // all 256 bytes as characters
    for c in 0..=255u8 {
        let want = d.owner_of_char(c);
        match (want, E::try_from_ascii(c)) {
            (Some(i), Some(x)) => {
                if x != items[i] {
                    v("try_from_ascii|wrong-variant", format!("try_from_ascii({:?}) = {:?}, character belongs to {}", c as char, x, d.variants[i].name));
                }
                match observe(|| E::unsafe_from_ascii(c)) {
                    Ok(u) if u == items[i] => {}
                    Ok(u) => v("unsafe_from_ascii|disagrees", format!("unsafe_from_ascii({:?}) = {:?}", c as char, u)),
                    Err(p) => v("unsafe_from_ascii|panics", format!("unsafe_from_ascii({:?}) panicked ({p})", c as char)),
                }
            }
            (Some(i), None) => v("try_from_ascii|refuses-declared", format!("try_from_ascii({:?}) = None, it is the display character of {}", c as char, d.variants[i].name)),
            (None, Some(x)) => v("try_from_ascii|accepts-undeclared", format!("try_from_ascii({c:#04x}) = Some({:?}) but no variant displays as that byte", x)),
            (None, None) => {}
        }
    }
    // sequences over the derived codec obey the same round-trip laws as built-ins
    let r = observe(|| seq_laws::<E>(d));
    match r {
        Ok(list) => {
            for (c, s) in list {
                v(&c, s);
            }
        }
        Err(p) => v("Seq<Derived>|panics", format!("sequence round trip panicked: {p}")),
    }
    bad
}

fn seq_laws<E: Codec>(d: &EDecl) -> Vec<(String, String)> {
    let mut bad = Vec::new();
    let bits = d.expected_bits().max(1) as usize;
    let n = 3 * 64 / bits + 2;
    let nv = d.variants.len();
    // every variant appears; positions cross word boundaries
    let idx: Vec<usize> = (0..n).map(|i| (i * 7 + i / nv) % nv).collect();
    let text: String = idx.iter().map(|i| d.variants[*i].ch as char).collect();
    let codes: Vec<u8> = idx.iter().map(|i| d.variants[*i].disc).collect();
    let seq = match Seq::<E>::try_from(text.as_bytes()) {
        Ok(s) => s,
        Err(e) => {
            bad.push(("Seq<Derived>|parse-rejects-display-chars".to_string(), format!("text of display characters {:?} rejected: {:?}", &text[..text.len().min(40)], e)));
            return bad;
        }
    };
    let mut chk = |ok: bool, class: &str, detail: String| {
        if !ok {
            bad.push((format!("Seq<Derived>|{class}"), detail));
        }
    };
    chk(seq.len() == n, "length", format!("parsed length {} want {n}", seq.len()));
    chk(seq.to_string().as_bytes() == text.as_bytes(), "display-roundtrip", "display -> parse -> display is not the identity".to_string());
    let got: Vec<u8> = seq.iter().map(|x| x.to_bits()).collect();
    chk(got == codes, "symbols", "iteration gives different symbols".to_string());
    if E::BITS as usize == bits {
        chk(model::live_bits(seq.into_raw(), n * bits) == model::pack_words(bits as u8, &codes), "packing", "raw image is not the little-endian packing of the discriminants".to_string());
    }
    let (a, b) = (n / 5 + 1, n - 2);
    let sl = &seq[a..b];
    chk(sl.len() == b - a && sl.iter().map(|x| x.to_bits()).eq(codes[a..b].iter().copied()), "slicing", format!("slice [{a}..{b}] wrong"));
    chk(sl.to_owned() == *sl && sl.to_owned().to_string().as_bytes() == &text.as_bytes()[a..b], "to_owned", "copy of an offset slice differs".to_string());
    let rev = sl.to_rev();
    chk(rev.iter().map(|x| x.to_bits()).eq(codes[a..b].iter().rev().copied()), "reverse", "to_rev wrong".to_string());
    chk(seq.windows(3).count() == n - 2 && seq.chunks(3).count() == n / 3, "windows-chunks", "window/chunk counts wrong".to_string());
    if 2 * bits <= 64 {
        let ks: Vec<Kmer<E, 2>> = seq.kmers::<2>().collect();
        chk(ks.len() == n - 1 && ks.iter().enumerate().all(|(i, k)| k.to_string().as_bytes() == &text.as_bytes()[i..i + 2]), "kmers", "kmers::<2>() differ from the text windows".to_string());
    }
    let reparsed = Seq::<E>::try_from(seq.to_string().as_str());
    chk(reparsed.as_ref().ok() == Some(&seq), "reparse-equal", "reparsed display not equal".to_string());
    // a byte that is no display character must be rejected with that byte
    if let Some(badc) = (b'!'..=b'~').find(|c| d.owner_of_char(*c).is_none()) {
        let mut t = text.clone().into_bytes();
        t[n / 2] = badc;
        chk(Seq::<E>::try_from(&t[..]) == Err(ParseBioError::UnrecognisedBase(badc)), "rejects-bad-byte", format!("text with byte {:?} not rejected exactly", badc as char));
    }
    bad
}
