//! C05 — every codec's tables are mutually consistent and match the documented alphabet.
//! Finite domain, enumerated completely: 256 bytes x 7 codecs x {try,unsafe}_from_{bits,ascii},
//! every symbol of items(), complements. Oracle: documented tables of model.rs.

use bio_seq::prelude::*;
use bsv::*;
use serde_json::json;

fn tables<C: CI>(ctx: &mut Ctx) {
    let a = C::alpha();
    let name = C::NAME;
    ctx.group(&format!("{name}/width+items"), |ctx| {
        ctx.eval();
        check!(ctx, C::BITS == a.bits, format!("BITS|{name}|width"), "BITS={} documented {}", C::BITS, a.bits);
        let items: Vec<C> = C::items().collect();
        let mut got: Vec<u8> = items.iter().map(|s| s.to_bits()).collect();
        got.sort_unstable();
        let mut want = a.codes();
        want.sort_unstable();
        check!(ctx, got == want, format!("items|{name}|symbol-set"), "items() codes {:?} documented {:?}", got, want);
        for (i, s) in items.iter().enumerate() {
            ctx.eval();
            let code = s.to_bits();
            let ch = s.to_char();
            cell!(ctx, "{name}/symbol/{}", ch);
            nt!(ctx, "{name}/sym/{code}");
            check!(ctx, (code as u16) < (1u16 << a.bits), format!("to_bits|{name}|fits-width"), "symbol {ch:?} code {code} does not fit {} bits", a.bits);
            check!(ctx, ch.is_ascii() && a.char_of_code(code) == Some(ch as u8), format!("to_char|{name}|documented-char"),
                "symbol code {code} displays as {ch:?}, documented {:?}", a.char_of_code(code).map(|c| c as char));
            check!(ctx, C::try_from_bits(code) == Some(*s), format!("try_from_bits|{name}|roundtrip"), "decode(code {code}) != symbol {ch:?}");
            check!(ctx, C::try_from_ascii(ch as u8) == Some(*s), format!("try_from_ascii|{name}|roundtrip"), "parse(display {ch:?}) != symbol");
            for (j, t) in items.iter().enumerate() {
                if i != j {
                    check!(ctx, t.to_bits() != code, format!("to_bits|{name}|distinct-codes"), "symbols {i} and {j} share code {code}");
                    check!(ctx, t.to_char() != ch, format!("to_char|{name}|distinct-chars"), "symbols {i} and {j} share char {ch:?}");
                    check!(ctx, t != s, format!("items|{name}|duplicate"), "items() repeats a symbol");
                }
            }
        }
        ctx.sample(|| json!({"codec": name, "BITS": C::BITS, "items": items.iter().map(|s| format!("{}={:#b}", s.to_char(), s.to_bits())).collect::<Vec<_>>()}));
    });

    ctx.group(&format!("{name}/bits"), |ctx| {
        for b in 0..=255u8 {
            ctx.eval();
            let in_width = a.bits == 8 || (b as u16) < (1u16 << a.bits);
            let want = if in_width { a.canon(b) } else { None };
            let got = C::try_from_bits(b);
            let class = match (&want, a.syms.iter().any(|s| s.code == b)) {
                (Some(_), true) => "canonical",
                (Some(_), false) => "alt",
                (None, _) if in_width => "hole",
                _ => "beyond-width",
            };
            cell!(ctx, "{name}/bits/{class}");
            nt!(ctx, "{name}/bits/{b}");
            match (want, got) {
                (Some(w), Some(g)) => {
                    check!(ctx, g.to_bits() == w, format!("try_from_bits|{name}|wrong-symbol"),
                        "try_from_bits({b:#b}) gives code {:#b}, documented {:#b}", g.to_bits(), w);
                    // the unchecked decoder must agree wherever the fallible one succeeds
                    match observe(|| C::unsafe_from_bits(b)) {
                        Ok(u) => check!(ctx, u == g, format!("unsafe_from_bits|{name}|disagrees"),
                            "unsafe_from_bits({b:#b}) = {:?} but try_from_bits = {:?}", u, g),
                        Err(p) => check!(ctx, false, format!("unsafe_from_bits|{name}|panics"),
                            "unsafe_from_bits({b:#b}) panicked ({p}) although try_from_bits succeeds"),
                    }
                }
                (None, Some(g)) => check!(ctx, false, format!("try_from_bits|{name}|accepts-undocumented"),
                    "try_from_bits({b:#b}) = Some({:?}) but the pattern is outside the documented table", g),
                (Some(w), None) => check!(ctx, false, format!("try_from_bits|{name}|refuses-documented"),
                    "try_from_bits({b:#b}) = None, documented code of {:?}", a.char_of_code(w).map(|c| c as char)),
                (None, None) => {}
            }
        }
        ctx.sample(|| json!({"codec": name, "call": "try_from_bits(b) for b in 0..=255", "accepted": (0..=255u8).filter(|b| C::try_from_bits(*b).is_some()).count()}));
    });

    ctx.group(&format!("{name}/ascii"), |ctx| {
        for b in 0..=255u8 {
            ctx.eval();
            let want = a.code_of_char(b);
            let got = C::try_from_ascii(b);
            cell!(ctx, "{name}/ascii/{}", if want.is_some() { "symbol" } else if b.is_ascii_alphabetic() { "other-letter" } else if b < 0x80 { "other-ascii" } else { "non-ascii" });
            nt!(ctx, "{name}/ascii/{b}");
            match (want, got) {
                (Some(w), Some(g)) => {
                    check!(ctx, g.to_bits() == w, format!("try_from_ascii|{name}|wrong-symbol"),
                        "try_from_ascii({:?}) gives code {:#b}, documented {:#b}", b as char, g.to_bits(), w);
                    match observe(|| C::unsafe_from_ascii(b)) {
                        Ok(u) => check!(ctx, u == g, format!("unsafe_from_ascii|{name}|disagrees"),
                            "unsafe_from_ascii({:?}) = {:?} but try_from_ascii = {:?}", b as char, u, g),
                        Err(p) => check!(ctx, false, format!("unsafe_from_ascii|{name}|panics"),
                            "unsafe_from_ascii({:?}) panicked ({p}) although try_from_ascii succeeds", b as char),
                    }
                }
                (None, Some(g)) => check!(ctx, false, format!("try_from_ascii|{name}|accepts-undocumented"),
                    "try_from_ascii({b:#04x}) = Some({:?}) but the byte is not a documented symbol character", g),
                (Some(_), None) => check!(ctx, false, format!("try_from_ascii|{name}|refuses-documented"),
                    "try_from_ascii({:?}) = None for a documented symbol character", b as char),
                (None, None) => {}
            }
        }
        ctx.sample(|| json!({"codec": name, "call": "try_from_ascii(b) for b in 0..=255", "accepted": (0..=255u8).filter(|b| C::try_from_ascii(*b).is_some()).map(|b| (b as char).to_string()).collect::<String>()}));
    });
}

/// every documented alternative code, placed in a sequence, decodes, prints and compares as its symbol
fn alt_codes_in_sequences<C: CI>(ctx: &mut Ctx) {
    let a = C::alpha();
    let name = C::NAME;
    ctx.group(&format!("{name}/alternative-codes-in-sequences"), |ctx| {
        for sy in &a.syms {
            for &alt in &sy.alt_codes {
                for pos in [0usize, 1, per_word(a.bits) - 1, per_word(a.bits)] {
                    ctx.eval();
                    let n = per_word(a.bits) + 2;
                    let mut raw = vec![a.syms[0].code; n];
                    raw[pos] = alt;
                    let words: Vec<usize> = model::pack_words(a.bits, &raw).iter().map(|w| *w as usize).collect();
                    let Some(s) = Seq::<C>::from_raw(n, &words) else {
                        check!(ctx, false, format!("from_raw|{name}|refuses-alternative-code"), "from_raw refuses an image holding the alternative code {alt:#b}");
                        continue;
                    };
                    let got = observe(|| (s.nth(pos).to_bits(), s.get(pos).map(|x| x.to_char()), s.iter().nth(pos).map(|x| x.to_bits()), s.to_string()));
                    let mut text: Vec<u8> = vec![a.syms[0].ch; n];
                    text[pos] = sy.ch;
                    let text = String::from_utf8(text).unwrap();
                    check!(ctx, got == Ok((sy.code, Some(sy.ch as char), Some(sy.code), text.clone())), format!("alt-code|{name}|decodes-wrong-in-sequence"), "alternative code {alt:#b} of {:?} at position {pos}: nth/get/iter/display = {:?}", sy.ch as char, got);
                    check!(ctx, s[..] == text.as_str(), format!("alt-code|{name}|sequence-not-equal-to-its-text"), "a sequence holding alternative code {alt:#b} of {:?} does not equal its displayed text {text:?}", sy.ch as char);
                    nt!(ctx, "{name}/altseq/{alt}/{pos}");
                }
            }
        }
        cell!(ctx, "{name}/alternative-codes-in-sequences");
    });
}

/// The same decoders called through the CONCRETE type (`Dna::try_from_ascii(b)`, not `<C as Codec>::…`):
/// an inherent method of the same name would shadow the trait method for such callers.
macro_rules! concrete_calls {
    ($ctx:expr, $t:ty) => {{
        let name = <$t as CI>::NAME;
        $ctx.group(&format!("{name}/concrete-type-calls"), |ctx| {
            for b in 0..=255u8 {
                ctx.eval();
                let via_trait = (<$t as Codec>::try_from_ascii(b).map(|x| x.to_bits()), <$t as Codec>::try_from_bits(b).map(|x| x.to_bits()));
                #[allow(clippy::redundant_closure_call)]
                let via_type = observe(|| (<$t>::try_from_ascii(b).map(|x| <$t>::to_bits(x)), <$t>::try_from_bits(b).map(|x| <$t>::to_bits(x))));
                check!(ctx, via_type == Ok(via_trait), format!("concrete-call|{name}|differs-from-trait-method"), "{}::try_from_ascii / try_from_bits({b:#04x}) called on the concrete type gives {:?}, through the trait {:?}", stringify!($t), via_type, via_trait);
                if via_trait.0.is_some() {
                    let u = observe(|| <$t>::to_bits(<$t>::unsafe_from_ascii(b)));
                    check!(ctx, u == Ok(via_trait.0.unwrap()), format!("concrete-call|{name}|unsafe_from_ascii"), "{}::unsafe_from_ascii({:?}) on the concrete type: {:?}", stringify!($t), b as char, u);
                    let c = observe(|| <$t>::to_char(<$t>::unsafe_from_ascii(b)));
                    check!(ctx, c.is_ok(), format!("concrete-call|{name}|to_char"), "{}::to_char panicked", stringify!($t));
                }
                if via_trait.1.is_some() {
                    let u = observe(|| <$t>::to_bits(<$t>::unsafe_from_bits(b)));
                    check!(ctx, u == Ok(via_trait.1.unwrap()), format!("concrete-call|{name}|unsafe_from_bits"), "{}::unsafe_from_bits({b:#b}) on the concrete type: {:?}", stringify!($t), u);
                }
            }
            let n = <$t>::items().count();
            check!(ctx, n == <$t as Codec>::items().count() && <$t>::BITS == <$t as Codec>::BITS, format!("concrete-call|{name}|items-or-BITS"), "items()/BITS differ between the concrete type and the trait");
            cell!(ctx, "{name}/concrete-type-calls");
        });
    }};
}

fn complements<C: CI + ComplementMut>(ctx: &mut Ctx) {
    let a = C::alpha();
    let name = C::NAME;
    ctx.group(&format!("{name}/complement"), |ctx| {
        for s in C::items() {
            ctx.eval();
            let mut c = s;
            c.comp();
            let want = a.comp_code(s.to_bits());
            cell!(ctx, "{name}/comp/{}", s.to_char());
            nt!(ctx, "{name}/comp/{}", s.to_bits());
            check!(ctx, c.to_bits() == want, format!("comp|{name}|wrong-complement"),
                "comp({:?}) = {:?}, documented {:?}", s.to_char(), c.to_char(), a.char_of_code(want).map(|x| x as char));
            let mut cc = c;
            cc.comp();
            check!(ctx, cc == s, format!("comp|{name}|not-involutive"), "comp(comp({:?})) = {:?}", s.to_char(), cc.to_char());
        }
        ctx.sample(|| json!({"codec": name, "complement": C::items().map(|s| { let mut c = s; c.comp(); format!("{}->{}", s.to_char(), c.to_char()) }).collect::<Vec<_>>()}));
    });
}

/// first use of every decoder raced from 8 threads (lazily built process-wide tables must not be
/// observable half-built); re-run in fresh processes and under Miri with many scheduler seeds
fn race<C: CI>(ctx: &mut Ctx) {
    let a = C::alpha();
    let name = C::NAME;
    let chars = a.chars();
    let codes: Vec<u8> = (0..=255u8).filter(|b| (a.bits == 8 || (*b as u16) < (1u16 << a.bits)) && a.canon(*b).is_some()).collect();
    let go = std::sync::atomic::AtomicUsize::new(0);
    let bad: Vec<Vec<String>> = std::thread::scope(|sc| {
        let hs: Vec<_> = (0..8usize)
            .map(|t| {
                let (chars, codes, go) = (&chars, &codes, &go);
                sc.spawn(move || {
                    let mut bad = Vec::new();
                    // spin barrier: release all threads at once
                    go.fetch_add(1, std::sync::atomic::Ordering::SeqCst);
                    let mut spins = 0u32;
                    while go.load(std::sync::atomic::Ordering::SeqCst) < 8 && spins < 2_000_000 {
                        std::hint::spin_loop();
                        spins += 1;
                    }
                    // each thread starts at a different end of the tables
                    for k in 0..chars.len() {
                        let c = chars[if t % 2 == 0 { k } else { chars.len() - 1 - k }];
                        let tr = C::try_from_ascii(c);
                        let un = std::panic::catch_unwind(|| C::unsafe_from_ascii(c));
                        match (tr, un) {
                            (Some(x), Ok(y)) if x == y && Some(x.to_bits()) == a.code_of_char(c) => {}
                            (tr, un) => bad.push(format!("thread {t}: try_from_ascii({:?}) = {:?}, unsafe_from_ascii = {:?}", c as char, tr, un.ok())),
                        }
                    }
                    for k in 0..codes.len() {
                        let b = codes[if t % 2 == 0 { k } else { codes.len() - 1 - k }];
                        let tr = C::try_from_bits(b);
                        let un = std::panic::catch_unwind(|| C::unsafe_from_bits(b));
                        match (tr, un) {
                            (Some(x), Ok(y)) if x == y && Some(x.to_bits()) == a.canon(b) => {}
                            (tr, un) => bad.push(format!("thread {t}: try_from_bits({b:#b}) = {:?}, unsafe_from_bits = {:?}", tr, un.ok())),
                        }
                    }
                    bad
                })
            })
            .collect();
        hs.into_iter().map(|h| h.join().unwrap_or_else(|_| vec!["a racing thread panicked".to_string()])).collect()
    });
    for b in bad.into_iter().flatten() {
        check!(ctx, false, format!("first-use-race|{name}|decoders-disagree"), "{b}");
    }
    ctx.eval();
}

fn main() {
    run_main("C05", |ctx| {
        // must run before anything else touches the decoders
        ctx.group("first-use-race", |ctx| {
            for_each_codec!(race, ctx);
            cell!(ctx, "race/8-threads-x-7-codecs");
            ctx.count("race-threads", 8);
        });
        for_each_codec!(tables, ctx);
        for_each_codec!(alt_codes_in_sequences, ctx);
        concrete_calls!(ctx, Dna);
        concrete_calls!(ctx, Iupac);
        concrete_calls!(ctx, Amino);
        concrete_calls!(ctx, Text);
        concrete_calls!(ctx, MDna);
        concrete_calls!(ctx, MIupac);
        concrete_calls!(ctx, Degen);
        for_each_comp_codec!(complements, ctx);
        // copying form on single symbols where implemented
        ctx.group("dna/to_comp", |ctx| {
            for (x, y) in [(Dna::A, Dna::T), (Dna::C, Dna::G), (Dna::G, Dna::C), (Dna::T, Dna::A)] {
                ctx.eval();
                check!(ctx, x.to_comp() == y, "to_comp|dna|pairs", "{:?}.to_comp() != {:?}", x, y);
            }
        });
        // the other per-symbol views of the same tables: conversion of a symbol to an integer is its bit code
        // (text: its byte), Display of an amino acid is its display character
        ctx.group("symbol-conversions", |ctx| {
            for s in Iupac::items() {
                ctx.eval();
                check!(ctx, u8::from(s) == s.to_bits(), "u8::from(symbol)|iupac|not-the-code", "u8::from({:?}) = {:#x}, to_bits = {:#x}", s, u8::from(s), s.to_bits());
            }
            for s in Amino::items() {
                ctx.eval();
                check!(ctx, u8::from(s) == s.to_bits(), "u8::from(symbol)|amino|not-the-code", "u8::from({:?}) = {:#x}, to_bits = {:#x}", s, u8::from(s), s.to_bits());
                check!(ctx, s.to_string() == s.to_char().to_string() && format!("{s}").len() == 1, "display(symbol)|amino|not-the-character", "Display of {:?} is {:?}, to_char is {:?}", s, s.to_string(), s.to_char());
            }
            for b in 0..=255u8 {
                ctx.eval();
                let t = Text::try_from_bits(b).expect("text codec takes any byte as bits");
                check!(ctx, u8::from(t) == b && t.to_bits() == b, "u8::from(symbol)|text|not-the-byte", "u8::from(text symbol {b:#04x}) = {:#04x}", u8::from(t));
            }
            cell!(ctx, "symbol-conversions");
        });
        ctx.note("exhaustive", json!(true));
    });
}
