//! C15 — custom codon tables are faithful bidirectional maps.
//! Oracle: BTreeMap model; identical answers for every construction (hash-map iteration) order.

use bio_seq::prelude::*;
use bio_seq::translation::{CodonTable, PartialTranslationTable, TranslationError};
use bsv::*;
use serde_json::json;
use std::collections::{BTreeMap, BTreeSet, HashMap};

fn amino_sym(letter: u8) -> Amino {
    Amino::try_from_ascii(letter).unwrap()
}

/// one generated map: codon (codes) -> amino letter
fn gen_map<C: CI>(ctx: &mut Ctx, mixed_len: bool) -> BTreeMap<Vec<u8>, u8> {
    let a = C::alpha();
    let letters = model::AMINO_LETTERS;
    let mut m: BTreeMap<Vec<u8>, u8> = BTreeMap::new();
    let len = 1 + ctx.rng.below(4);
    let naminos = ctx.rng.below(letters.len() + 1);
    let start = ctx.rng.below(letters.len());
    for i in 0..naminos {
        let letter = letters[(start + i) % letters.len()];
        let pre = match ctx.rng.below(5) { 0 => 0, 1 | 2 => 1, 3 => 2, _ => 3 + ctx.rng.below(3) };
        for _ in 0..pre {
            for _try in 0..8 {
                let l = if mixed_len { 1 + ctx.rng.below(4) } else { len };
                let mut codon = rand_codes(&mut ctx.rng, a, l);
                // trailing zero-coded symbols are the interesting collisions for packed keys
                if ctx.rng.chance(1, 4) {
                    let z = *a.codes().iter().min().unwrap();
                    let k = ctx.rng.below(l);
                    for c in codon.iter_mut().skip(k) {
                        *c = z;
                    }
                }
                if !m.contains_key(&codon) && m.len() < 64 {
                    m.insert(codon, letter);
                    break;
                }
            }
        }
    }
    m
}

fn judge<C: CI>(ctx: &mut Ctx, table: &CodonTable<C, Amino>, m: &BTreeMap<Vec<u8>, u8>, how: &str, light: bool) {
    let a = C::alpha();
    let name = C::NAME;
    let noff = n_offsets(a.bits);
    // forward: every key at offsets, neighbours, other lengths
    let mut queries: BTreeSet<Vec<u8>> = BTreeSet::new();
    for k in m.keys() {
        queries.insert(k.clone());
        if !light {
            let mut d = k.clone();
            let i = ctx.rng.below(d.len());
            d[i] = *ctx.rng.pick(&a.codes());
            queries.insert(d);
            queries.insert(k[..k.len() - 1].to_vec());
            let z = *a.codes().iter().min().unwrap();
            let mut longer = k.clone();
            longer.push(z); // key extended by the zero-coded symbol
            queries.insert(longer.clone());
            longer.push(z);
            queries.insert(longer);
            let mut l2 = k.clone();
            l2.push(*ctx.rng.pick(&a.codes()));
            queries.insert(l2);
            // key with trailing zero-coded symbols stripped
            let mut t = k.clone();
            while t.last() == Some(&z) {
                t.pop();
                queries.insert(t.clone());
            }
        }
    }
    queries.insert(vec![]);
    for (qi, q) in queries.iter().enumerate() {
        if ctx.over() {
            break;
        }
        let pads: Vec<usize> = if light || ctx.lite { vec![(qi * 3 + 1) % noff] } else { (0..noff).filter(|o| (o + qi) % 4 == 0).collect() };
        let want = m.get(q).copied();
        for pad in pads {
            let p = Padded::<C>::new(&mut ctx.rng, pad, q, 1);
            ctx.eval();
            let r = observe(|| table.try_to_amino(p.slice()));
            let what = format!("{name} table[{how}] of {} entries, query {:?} (len {}) at pad {pad}", m.len(), a.text(q), q.len());
            match (want, r) {
                (Some(l), Ok(Ok(x))) => check!(ctx, x.to_char() as u8 == l, format!("try_to_amino|{name}|wrong-amino"), "{what}: gives {:?}, mapped to {:?}", x.to_char(), l as char),
                (Some(l), Ok(Err(e))) => check!(ctx, false, format!("try_to_amino|{name}|misses-key"), "{what}: gives {:?}, key is mapped to {:?}", e, l as char),
                (None, Ok(Err(TranslationError::InvalidCodon(c)))) => check!(ctx, codes_of::<C>(&c) == *q, format!("try_to_amino|{name}|invalid-codon-payload"), "{what}: InvalidCodon names {:?}", show::<C>(&c)),
                (None, Ok(Ok(x))) => check!(ctx, false, format!("try_to_amino|{name}|translates-non-key"), "{what}: gives Ok({:?}) but the codon is not a key", x.to_char()),
                (None, Ok(Err(e))) => check!(ctx, false, format!("try_to_amino|{name}|wrong-error"), "{what}: gives {:?} instead of InvalidCodon", e),
                (_, Err(pm)) => check!(ctx, false, format!("try_to_amino|{name}|panics"), "{what}: panicked {pm}"),
            }
        }
        if !light {
            // owned presentation
            let owned = mk::<C>(q);
            let r = observe(|| table.try_to_amino(&owned));
            check!(ctx, matches!((&want, &r), (Some(l), Ok(Ok(x))) if x.to_char() as u8 == *l) || matches!((&want, &r), (None, Ok(Err(TranslationError::InvalidCodon(_))))), format!("try_to_amino|{name}|owned-query"), "{name} table[{how}]: owned query {:?} gives {:?}", a.text(q), r);
            cell!(ctx, "{name}/forward/{}/len{}", if want.is_some() { "key" } else { "non-key" }, q.len());
        }
    }
    // reverse: every amino symbol
    for &l in model::AMINO_LETTERS {
        ctx.eval();
        let pre: Vec<&Vec<u8>> = m.iter().filter(|(_, v)| **v == l).map(|(k, _)| k).collect();
        let r = observe(|| table.try_to_codon(amino_sym(l)));
        let what = format!("{name} table[{how}] of {} entries, amino {:?} with {} preimages {:?}", m.len(), l as char, pre.len(), pre.iter().map(|c| a.text(c)).collect::<Vec<_>>());
        match (pre.len(), r) {
            (0, Ok(Err(TranslationError::InvalidAmino(x)))) => check!(ctx, x.to_char() as u8 == l, format!("try_to_codon|{name}|payload"), "{what}: InvalidAmino names {:?}", x),
            (1, Ok(Ok(c))) => check!(ctx, codes_of::<C>(&c) == *pre[0], format!("try_to_codon|{name}|wrong-codon"), "{what}: gives {:?}", show::<C>(&c)),
            (n, Ok(Err(TranslationError::AmbiguousCodon(x)))) if n >= 2 => check!(ctx, x.to_char() as u8 == l, format!("try_to_codon|{name}|payload"), "{what}: AmbiguousCodon names {:?}", x),
            (n, Ok(other)) => check!(ctx, false, format!("try_to_codon|{name}|{}", match n { 0 => "no-preimage-not-invalid", 1 => "unique-preimage-not-returned", 2 => "two-preimages-not-ambiguous", _ => "3+-preimages-not-ambiguous" }), "{what}: gives {:?}", other.map(|c| show::<C>(&c))),
            (_, Err(pm)) => check!(ctx, false, format!("try_to_codon|{name}|panics"), "{what}: panicked {pm}"),
        }
        if !light {
            cell!(ctx, "{name}/reverse/preimages={}", pre.len().min(3));
        }
    }
}

fn run<C: CI>(ctx: &mut Ctx) {
    let a = C::alpha();
    let name = C::NAME;
    ctx.group(&format!("{name}/generated-maps"), |ctx| {
        let nmaps = ctx.n(150, 1500, 2);
        let reps = ctx.n(30, 500, 2);
        let mut orders_seen_total = 0u64;
        for mi in 0..nmaps {
            if ctx.over() {
                break;
            }
            let m = gen_map::<C>(ctx, mi % 3 == 2);
            let mut orders: BTreeSet<Vec<Vec<u8>>> = BTreeSet::new();
            for rep in 0..reps {
                if ctx.over() {
                    break;
                }
                // fresh HashMap => fresh RandomState => its own iteration order, which we observe
                let mut hm: HashMap<Seq<C>, Amino> = HashMap::new();
                let mut entries: Vec<(&Vec<u8>, &u8)> = m.iter().collect();
                if rep % 2 == 1 {
                    entries.reverse();
                }
                for (k, v) in entries {
                    hm.insert(mk::<C>(k), amino_sym(*v));
                }
                if !ctx.lite {
                    orders.insert(hm.keys().map(|k| codes_of::<C>(k)).collect());
                }
                let table = match observe(|| CodonTable::<C, Amino>::from_map(hm)) {
                    Ok(t) => t,
                    Err(pm) => {
                        check!(ctx, false, format!("from_map|{name}|panics"), "{name}: from_map of {} entries panicked: {pm}", m.len());
                        continue;
                    }
                };
                judge::<C>(ctx, &table, &m, "HashMap", rep != 0);
            }
            // from an array of pairs
            if m.len() >= 3 {
                let v: Vec<(Seq<C>, Amino)> = m.iter().take(3).map(|(k, l)| (mk::<C>(k), amino_sym(*l))).collect();
                let arr: [(Seq<C>, Amino); 3] = [v[0].clone(), v[1].clone(), v[2].clone()];
                let sub: BTreeMap<Vec<u8>, u8> = m.iter().take(3).map(|(k, l)| (k.clone(), *l)).collect();
                if let Ok(t) = observe(|| CodonTable::<C, Amino>::from_map(arr)) {
                    judge::<C>(ctx, &t, &sub, "array", false);
                }
            }
            orders_seen_total += orders.len() as u64;
            let lens: BTreeSet<usize> = m.keys().map(|k| k.len()).collect();
            cell!(ctx, "{name}/map/entries={}/codon-lengths={:?}", match m.len() { 0 => "0", 1..=4 => "1-4", 5..=20 => "5-20", _ => "21-64" }, lens);
            ctx.nontrivial(fp(&[name.as_bytes(), format!("{:?}", m).as_bytes()]));
            if mi < 2 {
                ctx.sample(|| json!({"codec": name, "map": m.iter().map(|(k, v)| format!("{}->{}", a.text(k), *v as char)).collect::<Vec<_>>(), "constructions": reps, "distinct_iteration_orders_observed": orders.len()}));
            }
        }
        ctx.count(&format!("{name}/distinct-hashmap-iteration-orders-observed"), orders_seen_total);
    });
}

/// one amino acid with very many codons (counters narrower than the number of preimages)
fn many_preimages(ctx: &mut Ctx) {
    ctx.group("dna/many-preimages", |ctx| {
        let d = model::dna();
        let counts: Vec<usize> = if ctx.lite { vec![5] } else { vec![3, 127, 128, 129, 255, 256] };
        for total in counts {
            // all DNA 4-mers in order, the first `total` of them map to one amino acid; one more codon of
            // length 3 brings 256 to 257
            let mut m: BTreeMap<Vec<u8>, u8> = BTreeMap::new();
            for v in 0..total.min(256) {
                m.insert(vec![(v & 3) as u8, ((v >> 2) & 3) as u8, ((v >> 4) & 3) as u8, ((v >> 6) & 3) as u8], b'L');
            }
            for extra in [0usize, 1, 2] {
                if extra > 0 {
                    m.insert(vec![extra as u8, 0, 3], b'L');
                }
                m.insert(vec![0, 1], b'M'); // a unique one, and an absent one ('W')
                for rep in 0..ctx.n(4, 40, 1) {
                    let mut hm: HashMap<Seq<Dna>, Amino> = HashMap::new();
                    for (k, v) in &m {
                        hm.insert(mk::<Dna>(k), amino_sym(*v));
                    }
                    match observe(|| CodonTable::<Dna, Amino>::from_map(hm)) {
                        Ok(t) => judge::<Dna>(ctx, &t, &m, "HashMap-many-preimages", rep != 0),
                        Err(pm) => check!(ctx, false, "from_map|dna|panics".to_string(), "from_map of {} entries ({} codons for one amino acid) panicked: {pm}", m.len(), m.values().filter(|v| **v == b'L').count()),
                    }
                }
                cell!(ctx, "dna/many-preimages/{}", m.values().filter(|v| **v == b'L').count());
                ctx.nontrivial(fp(&[b"many", &[extra as u8], &(total as u32).to_le_bytes()]));
            }
        }
        let _ = d;
    });
}

fn main() {
    run_main("C15", |ctx| {
        ctx.first_use_race(3, |t| {
            let pairs: Vec<(Seq<Dna>, Amino)> = [("AAA", Amino::K), ("AAG", Amino::K), ("ATG", Amino::M), ("TGG", Amino::W), ("GCT", Amino::A)][..3 + t % 3].iter().map(|(c, a)| (Seq::<Dna>::try_from(*c).unwrap(), *a)).collect();
            let table: CodonTable<Dna, Amino> = CodonTable::from_map(pairs.into_iter().collect::<std::collections::HashMap<_, _>>());
            let q: Seq<Dna> = "AAAATGTGGCCC".try_into().unwrap();
            (
                q.chunks(3).map(|c| table.try_to_amino(c).map(|a| a.to_char()).map_err(|e| e.to_string())).collect::<Vec<_>>(),
                [Amino::K, Amino::M, Amino::W, Amino::A, Amino::C].iter().map(|a| table.try_to_codon(*a).map(|c| c.to_string()).map_err(|e| e.to_string())).collect::<Vec<_>>(),
            )
        });
        run::<Dna>(ctx);
        run::<Iupac>(ctx);
        many_preimages(ctx);
        ctx.note("rule", json!("generated maps from DNA and IUPAC codons of length 1..4 (uniform and mixed lengths, keys with trailing zero-coded symbols over-represented) to amino symbols with 0/1/2/3+ preimages, 0..64 entries; each map constructed 30 (thorough 500) times from a fresh HashMap (fresh RandomState; the iteration order of the very map handed to from_map is observed and counted) and from an array; queries: every key at bit offsets and as owned Seq, one-symbol neighbours, prefixes, keys extended by one/two zero-coded or random symbols, keys with trailing zero symbols stripped, the empty codon; every amino symbol in reverse; tables in which one amino acid has 3, 127..129, 255, 256, 257, 258 codons. Distinct = (codec, map)."));
    });
}
