//! C18 — serialization round trip preserves sequences and k-mers (bincode and JSON).
//! Oracle: identity — the deserialized value equals the original and the model in length,
//! symbols, hash stream and display.

use bio_seq::prelude::*;
use bitvec::prelude::*;
use bsv::*;
use serde_json::json;
use std::marker::PhantomData;

fn roundtrip_seq<C: CI>(ctx: &mut Ctx, s: &Seq<C>, m: &[u8], prov: &str) {
    let a = C::alpha();
    let name = C::NAME;
    let (head, _) = s.verif_layout();
    let cap = s.verif_capacity_bits();
    let what = format!("{name} [{prov}] {:?} (len {}, head {head}, capacity {cap} bits)", a.text_lossy(&m[..m.len().min(40)]), m.len());
    // sanity of the subject itself (so that a wrong provenance is not blamed on serde)
    if codes_of::<C>(s) != m {
        check!(ctx, false, format!("provenance|{name}|{prov}|harness-or-library"), "{what}: the value to serialize does not hold the model symbols");
        return;
    }
    for fmt in ["bincode", "json", "bincode-reader", "json-reader", "json-value", "json-slice"] {
        ctx.eval();
        let r: Result<Result<(Seq<C>, usize, bool), String>, String> = observe(|| {
            if fmt == "bincode-reader" {
                // through io::Read / io::Write instead of in-memory buffers
                let mut buf: Vec<u8> = Vec::new();
                bincode::serialize_into(&mut buf, s).map_err(|e| format!("serialize_into: {e}"))?;
                let d: Seq<C> = bincode::deserialize_from(&buf[..]).map_err(|e| format!("deserialize_from: {e}"))?;
                Ok((d, buf.len(), true))
            } else if fmt == "json-reader" {
                let text = serde_json::to_vec(s).map_err(|e| format!("to_vec: {e}"))?;
                let d: Seq<C> = serde_json::from_reader(&text[..]).map_err(|e| format!("from_reader: {e}"))?;
                Ok((d, text.len(), true))
            } else if fmt == "json-value" {
                let v = serde_json::to_value(s).map_err(|e| format!("to_value: {e}"))?;
                let d: Seq<C> = serde_json::from_value(v).map_err(|e| format!("from_value: {e}"))?;
                Ok((d, 0, true))
            } else if fmt == "json-slice" {
                let text = serde_json::to_vec_pretty(s).map_err(|e| format!("to_vec_pretty: {e}"))?;
                let d: Seq<C> = serde_json::from_slice(&text).map_err(|e| format!("from_slice: {e}"))?;
                Ok((d, text.len(), true))
            } else if fmt == "bincode" {
                let bytes = bincode::serialize(s).map_err(|e| format!("serialize: {e}"))?;
                let d: Seq<C> = bincode::deserialize(&bytes).map_err(|e| format!("deserialize: {e}"))?;
                let again = bincode::serialize(&d).map_err(|e| format!("re-serialize: {e}"))?;
                Ok((d, bytes.len(), again == bytes))
            } else {
                let text = serde_json::to_string(s).map_err(|e| format!("serialize: {e}"))?;
                let d: Seq<C> = serde_json::from_str(&text).map_err(|e| format!("deserialize: {e}"))?;
                let again = serde_json::to_string(&d).map_err(|e| format!("re-serialize: {e}"))?;
                Ok((d, text.len(), again == text))
            }
        });
        match r {
            Ok(Ok((d, _size, stable))) => {
                check!(ctx, d.len() == m.len(), format!("seq-roundtrip|{name}|{fmt}|length"), "{what}: {fmt} round trip has len {}", d.len());
                check!(ctx, codes_of::<C>(&d) == m, format!("seq-roundtrip|{name}|{fmt}|symbols"), "{what}: {fmt} round trip reads {:?}", show::<C>(&d));
                check!(ctx, d == *s && *s == d, format!("seq-roundtrip|{name}|{fmt}|not-equal"), "{what}: {fmt} round trip != original");
                check!(ctx, hash_stream(&d) == hash_stream(s), format!("seq-roundtrip|{name}|{fmt}|hash"), "{what}: {fmt} round trip hashes differently");
                check!(ctx, show::<C>(&d) == show::<C>(s), format!("seq-roundtrip|{name}|{fmt}|display"), "{what}: {fmt} round trip displays {:?}", show::<C>(&d));
                if stable {
                    ctx.count("reserialization-identical", 1);
                } else {
                    ctx.count("reserialization-differs(observation-only)", 1);
                }
            }
            Ok(Err(e)) => check!(ctx, false, format!("seq-roundtrip|{name}|{fmt}|error"), "{what}: {fmt} {e}"),
            Err(pm) => check!(ctx, false, format!("seq-roundtrip|{name}|{fmt}|panics"), "{what}: {fmt} panicked {pm}"),
        }
    }
    let capc = if cap == m.len() * a.bits as usize { "exact" } else { "spare" };
    ctx.cell_k(fp(&[name.as_bytes(), prov.as_bytes(), &[(head > 0) as u8], capc.as_bytes(), len_class(a.bits, m.len()).as_bytes()]),
        || format!("{name}/{prov}/head{}/cap-{capc}/{}", if head > 0 { ">0" } else { "=0" }, len_class(a.bits, m.len())));
    ctx.cell_k(fp(&[b"head", name.as_bytes(), &[head as u8]]), || format!("{name}/internal-head/{head}"));
    ctx.nontrivial(fp(&[name.as_bytes(), prov.as_bytes(), m, &[head as u8]]));
}

fn seqs<C: CI>(ctx: &mut Ctx) {
    let a = C::alpha();
    let name = C::NAME;
    let pw = per_word(a.bits);
    let noff = n_offsets(a.bits);
    let bits = a.bits as usize;
    ctx.group(&format!("{name}/exact-fit"), |ctx| {
        // serialised values whose allocation has no spare words (whole-word lengths; copies of tail windows)
        let cases = exact_fit_cases_for(ctx, a.bits);
        for (n, pad) in cases {
            if ctx.over() {
                break;
            }
            let _fit = exact_fit_mode();
            let m = cover_codes(&mut ctx.rng, a, n);
            let p = Padded::<C>::new(&mut ctx.rng, pad, &m, 0);
            let all = codes_of::<C>(&p.parent);
            roundtrip_seq::<C>(ctx, &p.parent, &all, "exact-capacity");
            roundtrip_seq::<C>(ctx, &p.slice().to_owned(), &m, "copy-of-allocation-tail");
            cell!(ctx, "{name}/exact-fit/{}/pad{}", len_class(a.bits, n), if pad == 0 { "0" } else if (pad * bits) % 64 == 0 { "word" } else { "unaligned" });
        }
    });
    ctx.group(&format!("{name}/huge"), |ctx| {
        // values of 2^10 .. 2^16 symbols (65 .. 2049 machine words), random and structured contents
        for (k, n) in huge_lengths(ctx, a.bits).into_iter().enumerate() {
            if k % 2 == 1 && n < 30000 {
                continue; // every other length, and always the largest ones
            }
            let m = structured_codes(&mut ctx.rng, a, n, k);
            roundtrip_seq::<C>(ctx, &mk::<C>(&m), &m, "parsed-huge");
            let p = Padded::<C>::new(&mut ctx.rng, 1 + k % (noff - 1).max(1), &m, 2);
            roundtrip_seq::<C>(ctx, &p.slice().to_owned(), &m, "sliced-and-copied-huge");
            // shortened in place: the dead bits after the end hold whatever was there
            let mut longer = m.clone();
            let maxc = *a.codes().iter().max().unwrap();
            longer.extend(vec![maxc; 1 + k % 40]);
            let mut e = mk::<C>(&longer);
            e.truncate(n);
            roundtrip_seq::<C>(ctx, &e, &m, "truncated-huge");
            let mut e2 = mk::<C>(&longer);
            e2.remove(n..);
            roundtrip_seq::<C>(ctx, &e2, &m, "removed-suffix-huge");
            cell!(ctx, "{name}/huge/2^{}", usize::BITS - n.leading_zeros());
        }
    });
    ctx.group(&format!("{name}/sequences"), |ctx| {
        let mut lens = boundary_lengths(a.bits, 3);
        if ctx.lite {
            lens = vec![0, 1, pw + 1];
        }
        for (li, n) in lens.into_iter().enumerate() {
            if ctx.over() {
                break;
            }
            let m = cover_codes(&mut ctx.rng, a, n);
            roundtrip_seq::<C>(ctx, &mk::<C>(&m), &m, "parsed");
            let collected: Seq<C> = m.iter().map(|c| C::try_from_bits(*c).unwrap()).collect();
            roundtrip_seq::<C>(ctx, &collected, &m, "collected");
            let pad = 1 + (li * 3) % (noff - 1).max(1);
            let p = Padded::<C>::new(&mut ctx.rng, pad, &m, 2);
            roundtrip_seq::<C>(ctx, &p.slice().to_owned(), &m, "sliced-and-copied");
            let rev: Vec<u8> = m.iter().rev().copied().collect();
            roundtrip_seq::<C>(ctx, &p.slice().to_rev(), &rev, "reversed");
            // spare capacity
            let mut wc = Seq::<C>::with_capacity(n + 100);
            for c in &m {
                wc.push(C::try_from_bits(*c).unwrap());
            }
            roundtrip_seq::<C>(ctx, &wc, &m, "with_capacity");
            // edited: truncate / remove leave dead bits and spare capacity
            let mut longer = m.clone();
            longer.extend(rand_codes(&mut ctx.rng, a, 5));
            let mut e = mk::<C>(&longer);
            e.truncate(n);
            roundtrip_seq::<C>(ctx, &e, &m, "truncated");
            let mut e2 = mk::<C>(&longer);
            e2.remove(0..5);
            roundtrip_seq::<C>(ctx, &e2, &longer[5..], "removed-prefix");
            let mut e3 = mk::<C>(&m);
            let extra = rand_codes(&mut ctx.rng, a, 3);
            let ep = Padded::<C>::new(&mut ctx.rng, 1, &extra, 1);
            e3.insert(n / 2, ep.slice());
            e3.prepend(ep.slice());
            let mut m3 = extra.clone();
            m3.extend(&m[..n / 2]);
            m3.extend(&extra);
            m3.extend(&m[n / 2..]);
            roundtrip_seq::<C>(ctx, &e3, &m3, "inserted+prepended");
            // non-zero internal head: only reachable through the unstable From<&BitSlice> / From<BitVec>
            for h in [1usize, bits, 7, 13, 31, 63] {
                if ctx.lite && h != 7 {
                    continue;
                }
                let mut bv: BitVec<usize, Lsb0> = BitVec::new();
                for j in 0..h {
                    bv.push(j % 3 == 0); // junk in front
                }
                for w in model::pack_words(a.bits, &m).iter().enumerate().flat_map(|(wi, w)| (0..64).filter(move |b| wi * 64 + b < n * bits).map(move |b| (w >> b) & 1 == 1)) {
                    bv.push(w);
                }
                let from_slice = Seq::<C>::from(&bv[h..]);
                roundtrip_seq::<C>(ctx, &from_slice, &m, "from-bitslice-with-head");
                let cl = from_slice.clone();
                roundtrip_seq::<C>(ctx, &cl, &m, "clone-of-headed");
                let owned_bv: BitVec<usize, Lsb0> = bv[h..].to_bitvec();
                roundtrip_seq::<C>(ctx, &Seq::<C>::from(owned_bv), &m, "from-bitvec");
            }
            // sequences holding documented ALTERNATIVE codes (only reachable through from_raw): the value to
            // preserve is the bit content; symbols decode through the alternatives
            let alts: Vec<(u8, u8)> = a.syms.iter().flat_map(|sy| sy.alt_codes.iter().map(move |c| (*c, sy.code))).collect();
            if !alts.is_empty() && n > 0 {
                let raw_codes: Vec<u8> = (0..n).map(|i| if i % 2 == 0 { alts[(i / 2 + li) % alts.len()].0 } else { m[i] }).collect();
                let words: Vec<usize> = model::pack_words(a.bits, &raw_codes).iter().map(|w| *w as usize).collect();
                if let Some(sq) = Seq::<C>::from_raw(n, &words) {
                    let canon: Vec<u8> = raw_codes.iter().map(|c| a.canon(*c).unwrap()).collect();
                    let before = model::live_bits(sq.into_raw(), n * bits);
                    roundtrip_seq::<C>(ctx, &sq, &canon, "from_raw-with-alternative-codes");
                    for fmt in ["bincode", "json"] {
                        let d: Option<Seq<C>> = if fmt == "bincode" { bincode::serialize(&sq).ok().and_then(|b| bincode::deserialize(&b).ok()) } else { serde_json::to_string(&sq).ok().and_then(|t| serde_json::from_str(&t).ok()) };
                        check!(ctx, d.as_ref().map(|d| model::live_bits(d.into_raw(), n * bits)) == Some(before.clone()), format!("seq-roundtrip|{name}|{fmt}|alternative-codes-not-preserved"), "{name}: a sequence holding alternative codes does not come back bit-identical through {fmt}");
                    }
                }
            }
            ctx.sample(|| json!({"codec": name, "len": n, "provenances": ["parsed", "collected", "sliced-and-copied", "reversed", "with_capacity", "truncated", "removed-prefix", "inserted+prepended", "from-bitslice-with-head {1,BITS,7,13,31,63}", "clone-of-headed", "from-bitvec"], "formats": ["bincode (slice and io::Read/Write)", "serde_json (str, slice, reader, Value)"]}));
        }
    });
}

fn kmer_case<C: CI, const K: usize, S: KS>(ctx: &mut Ctx)
where
    Kmer<C, K, S>: serde::Serialize + serde::de::DeserializeOwned,
{
    let a = C::alpha();
    let name = C::NAME;
    if ctx.lite && !ctx.mine_group(K) {
        return;
    }
    let kb = K * a.bits as usize;
    ctx.group(&format!("{name}/kmer/K{K}/{}", S::NAME), |ctx| {
        let mut vals: Vec<Vec<u8>> = vec![vec![*a.codes().iter().max().unwrap(); K], vec![*a.codes().iter().min().unwrap(); K]];
        for _ in 0..ctx.n(6, 60, 1) {
            vals.push(rand_codes(&mut ctx.rng, a, K));
        }
        for x in vals {
            if ctx.over() {
                break;
            }
            let v = model::pack_u128(a.bits, &x);
            let k: Kmer<C, K, S> = Kmer { _p: PhantomData, bs: S::from_u128(v) };
            for fmt in ["bincode", "json"] {
                ctx.eval();
                let r: Result<Result<Kmer<C, K, S>, String>, String> = observe(|| {
                    if fmt == "bincode" {
                        let b = bincode::serialize(&k).map_err(|e| format!("serialize: {e}"))?;
                        bincode::deserialize(&b).map_err(|e| format!("deserialize: {e}"))
                    } else {
                        let t = serde_json::to_string(&k).map_err(|e| format!("serialize: {e}"))?;
                        serde_json::from_str(&t).map_err(|e| format!("deserialize of {t}: {e}"))
                    }
                });
                let what = format!("{name} K={K} {} k-mer {:?} (integer {v:#x}{})", S::NAME, a.text(&x), if v > u64::MAX as u128 { ", above u64::MAX" } else { "" });
                match r {
                    Ok(Ok(d)) => {
                        check!(ctx, d.bs.to_u128() == v && d == k, format!("kmer-roundtrip|{name}|{}|{fmt}|not-equal", S::NAME), "{what}: {fmt} round trip has integer {:#x}", d.bs.to_u128());
                        check!(ctx, observe(|| d.to_string()) == Ok(a.text(&x)) && hash_stream(&d) == hash_stream(&k) && d.len() == K, format!("kmer-roundtrip|{name}|{}|{fmt}|display-or-hash", S::NAME), "{what}: {fmt} round trip displays {:?}", observe(|| d.to_string()));
                    }
                    Ok(Err(e)) => check!(ctx, false, format!("kmer-roundtrip|{name}|{}|{fmt}|error", S::NAME), "{what}: {fmt} {e}"),
                    Err(pm) => check!(ctx, false, format!("kmer-roundtrip|{name}|{}|{fmt}|panics{}", S::NAME, if kb == S::WIDTH { "-full-width" } else { "" }), "{what}: {fmt} panicked {pm}"),
                }
            }
            ctx.nontrivial(fp(&[b"k", name.as_bytes(), S::NAME.as_bytes(), &[K as u8], &x]));
        }
        cell!(ctx, "{name}/K{K}/{}/{}", S::NAME, if kb == S::WIDTH { "full-width" } else { "partial" });
    });
}

fn main() {
    run_main("C18", |ctx| {
        ctx.first_use_race(3, |t| {
            let d: Seq<Dna> = ["ACGTTGCAACGTACGTACGTACGTACGTACGTTTGAC", "ACGT", ""][t % 3].try_into().unwrap();
            let i: Seq<Iupac> = "ACGTRYSWKMBDHVN-ACGT".try_into().unwrap();
            let k: Kmer<Dna, 4> = Kmer::from(27usize + t);
            let bd = bincode::serialize(&d).unwrap();
            let bi = bincode::serialize(&i).unwrap();
            let bk = bincode::serialize(&k).unwrap();
            let jd = serde_json::to_string(&d).unwrap();
            (
                bincode::deserialize::<Seq<Dna>>(&bd).map(|s| s.to_string()).ok(),
                bincode::deserialize::<Seq<Iupac>>(&bi).map(|s| s.to_string()).ok(),
                bincode::deserialize::<Kmer<Dna, 4>>(&bk).map(|s| s.to_string()).ok(),
                serde_json::from_str::<Seq<Dna>>(&jd).map(|s| s.to_string()).ok(),
                bd, bi, bk,
            )
        });
        for_each_codec!(seqs, ctx);
        if ctx.lite {
            for_each_k_small!(kmer_case, usize, ctx);
            for_each_k_small!(kmer_case, u128, ctx);
        } else {
            for_each_k64!(kmer_case, usize, ctx);
            for_each_k64!(kmer_case, u64, ctx);
            for_each_k128!(kmer_case, ctx);
        }
        ctx.note("rule", json!("owned sequences of all 7 codecs at every length class (0..3 words) with 11 provenances: parsed, collected, sliced-and-copied from an offset, reversed, with spare capacity, truncated, prefix removed, inserted+prepended, and — for non-zero internal heads — Seq::from(&bits[h..]) for h in {1,BITS,7,13,31,63}, its clone and Seq::from(BitVec), and sequences holding documented alternative codes built with from_raw (amino, masked dna); every (codec,K,storage) k-mer with all-max, all-min and random contents (u128 values above u64::MAX included); bincode (serialize/deserialize and serialize_into/deserialize_from) and serde_json (to_string/from_str, to_vec/from_reader, to_value/from_value, to_vec_pretty/from_slice): == both ways, length, symbols against the model, recorded hash stream, display. The hook records which internal (head, capacity) layouts were serialized. Distinct = (codec, provenance, content, head) / (codec,K,S,content)."));
        ctx.note("assumptions", json!(["byte-identical re-serialization is recorded as an observation, not demanded (the property asks for equality of values)"]));
    });
}
