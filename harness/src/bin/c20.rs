//! C20 — soft-masking changes case only and commutes with complement.
//! Oracle: the documented case tables (model.rs) applied position-wise.

use bio_seq::prelude::*;
use bsv::*;
use serde_json::json;

fn image<C: CI>(s: &Seq<C>) -> (String, Vec<u64>) {
    (show::<C>(s), model::live_bits(s.into_raw(), s.len() * C::BITS as usize))
}

fn miupac_symbols(ctx: &mut Ctx) {
    let a = model::miupac();
    ctx.group("miupac/all-32-symbols", |ctx| {
        let items: Vec<MIupac> = MIupac::items().collect();
        check!(ctx, items.len() == 32, "items|miupac|count".to_string(), "masked IUPAC has {} symbols", items.len());
        for s in items {
            ctx.eval();
            let ch = s.to_char() as u8;
            let (mut m, mut u) = (s, s);
            m.mask();
            u.unmask();
            let (tm, tu) = (s.to_mask(), s.to_unmask());
            check!(ctx, m.to_char() as u8 == model::miupac_lower(ch) && tm == m, "mask|miupac|not-lower-case".to_string(), "mask({:?}) = {:?}, lower-case form is {:?}", ch as char, m.to_char(), model::miupac_lower(ch) as char);
            check!(ctx, u.to_char() as u8 == model::miupac_upper(ch) && tu == u, "unmask|miupac|not-upper-case".to_string(), "unmask({:?}) = {:?}, upper-case form is {:?}", ch as char, u.to_char(), model::miupac_upper(ch) as char);
            let (mut mm, mut uu, mut um) = (m, u, m);
            mm.mask();
            uu.unmask();
            um.unmask();
            check!(ctx, mm == m && uu == u, "mask|miupac|not-idempotent".to_string(), "mask/unmask of {:?} not idempotent", ch as char);
            check!(ctx, um == u, "unmask|miupac|unmask-after-mask".to_string(), "unmask(mask({:?})) = {:?} != unmask = {:?}", ch as char, um.to_char(), u.to_char());
            let set = model::miupac_set_of_code(s.to_bits());
            check!(ctx, model::miupac_set_of_code(m.to_bits()) == set && model::miupac_set_of_code(u.to_bits()) == set, "mask|miupac|changes-nucleotide-set".to_string(), "masking {:?} changes its nucleotide set", ch as char);
            // commutes with complement
            let (mut cm, mut mc) = (s, s);
            cm.comp();
            cm.mask();
            mc.mask();
            mc.comp();
            check!(ctx, cm == mc, "mask|miupac|does-not-commute-with-comp".to_string(), "mask∘comp != comp∘mask for {:?}", ch as char);
            let (mut cu, mut uc) = (s, s);
            cu.comp();
            cu.unmask();
            uc.unmask();
            uc.comp();
            check!(ctx, cu == uc, "unmask|miupac|does-not-commute-with-comp".to_string(), "unmask∘comp != comp∘unmask for {:?}", ch as char);
            cell!(ctx, "miupac/symbol/{}", ch as char);
            ctx.nontrivial_s(&format!("miupac/{ch}"));
        }
        let _ = a;
        ctx.sample(|| json!({"codec": "miupac", "symbols": 32, "checked": ["case table", "idempotence", "unmask∘mask", "nucleotide set", "commutes with comp"]}));
    });
}

fn mdna_symbols(ctx: &mut Ctx) {
    ctx.group("mdna/all-symbols", |ctx| {
        for s in MDna::items() {
            ctx.eval();
            let ch = s.to_char() as u8;
            let (mut m, mut u) = (s, s);
            m.mask();
            u.unmask();
            if let Some(t) = model::mdna_toggle_char(ch) {
                check!(ctx, m.to_char() as u8 == t && u.to_char() as u8 == t, "mask|mdna|case-table".to_string(), "mask({:?}) = {:?}, unmask = {:?}; documented: {:?}", ch as char, m.to_char(), u.to_char(), t as char);
            }
            // stated for everything: involution
            let (mut mm, mut uu) = (m, u);
            mm.mask();
            uu.unmask();
            check!(ctx, mm == s && uu == s, "mask|mdna|not-involutive".to_string(), "mask twice / unmask twice of {:?} is not the identity", ch as char);
            let (mut cm, mut mc) = (s, s);
            cm.comp();
            cm.mask();
            mc.mask();
            mc.comp();
            check!(ctx, cm == mc, "mask|mdna|does-not-commute-with-comp".to_string(), "mask∘comp != comp∘mask for {:?}", ch as char);
            cell!(ctx, "mdna/symbol/{}", ch as char);
            ctx.nontrivial_s(&format!("mdna/{ch}"));
        }
    });
}

/// sequence level, generic over the two masked codecs; `lower`/`upper` give the model of mask/unmask per code
fn seqs<C: CI + MaskableMut + ComplementMut>(ctx: &mut Ctx, mask_code: fn(u8) -> u8, unmask_code: fn(u8) -> u8, subst: fn(u8) -> u8) {
    let a = C::alpha();
    let name = C::NAME;
    let pw = per_word(a.bits);
    let noff = n_offsets(a.bits);
    ctx.group(&format!("{name}/sequences"), |ctx| {
        let lens: Vec<usize> = if ctx.lite { vec![0, 1, pw + 1 + ctx.shard % 2] } else { (0..=3 * pw + 2).chain(long_lengths(a.bits)).chain(huge_lengths(ctx, a.bits)).collect() };
        // (length, Some(pad) = exact-fit operands: allocation without spare words, nothing after the window)
        let plan = exact_plan(ctx, a.bits, lens);
        for (n, exact_pad) in plan {
            for rep in 0..ctx.n(3, 30, 1) {
                if ctx.over() || (exact_pad.is_some() && rep > 0) {
                    break;
                }
                let _fit = exact_pad.map(|_| exact_fit_mode());
                if n > 1100 && rep > 0 {
                    break; // far-from-small lengths: one structured content each
                }
                let x: Vec<u8> = if n > 1100 { structured_codes(&mut ctx.rng, a, n, n) } else if rep == 0 { cover_codes(&mut ctx.rng, a, n) } else { rand_codes(&mut ctx.rng, a, n) };
                let x: Vec<u8> = x.into_iter().map(subst).collect();
                // built by parse, and by to_owned() of an offset slice
                let pad = exact_pad.unwrap_or((n * 3 + rep * 7 + 1) % noff);
                let p = Padded::<C>::new(&mut ctx.rng, pad, &x, 2);
                let subjects: [(&str, Seq<C>); 2] = [("parsed", mk::<C>(&x)), ("offset-to_owned", p.slice().to_owned())];
                let wm: Vec<u8> = x.iter().map(|c| mask_code(*c)).collect();
                let wu: Vec<u8> = x.iter().map(|c| unmask_code(*c)).collect();
                for (prov, s) in subjects {
                    ctx.eval();
                    let before = image(&s);
                    let what = format!("{name} [{prov}] {:?} (len {n})", a.text(&x[..n.min(48)]));
                    match observe(|| (s.to_mask(), s.to_unmask(), { let mut i = s.clone(); i.mask(); i }, { let mut i = s.clone(); i.unmask(); i })) {
                        Ok((m, u, im, iu)) => {
                            check!(ctx, m.len() == n && u.len() == n, format!("to_mask|{name}|length"), "{what}: lengths {} {}", m.len(), u.len());
                            let gm = codes_of::<C>(&m);
                            check!(ctx, gm == wm, format!("to_mask|{name}|position-wise"), "{what}: to_mask = {:?} want {:?}; first difference at position {:?} (bit {})", show::<C>(&m), a.text(&wm), gm.iter().zip(&wm).position(|(g, w)| g != w), gm.iter().zip(&wm).position(|(g, w)| g != w).map(|i| i * a.bits as usize % 64).unwrap_or(0));
                            check!(ctx, codes_of::<C>(&u) == wu, format!("to_unmask|{name}|position-wise"), "{what}: to_unmask = {:?} want {:?}", show::<C>(&u), a.text(&wu));
                            check!(ctx, im == m && iu == u, format!("mask|{name}|in-place-differs"), "{what}: in-place mask/unmask differ from the copying forms");
                            check!(ctx, image(&s) == before, format!("to_mask|{name}|receiver-changed"), "{what}: receiver changed by to_mask/to_unmask");
                            // raw image of the result is the packed model (C04 tie-in)
                            check!(ctx, model::live_bits(m.into_raw(), n * a.bits as usize) == model::pack_words(a.bits, &wm), format!("to_mask|{name}|raw-image"), "{what}: raw image of to_mask() differs from the packed model");
                            // commutes with reverse-complement and reverse
                            let r1 = observe(|| (m.to_revcomp(), s.to_revcomp().to_mask(), m.to_rev(), s.to_rev().to_mask()));
                            match r1 {
                                Ok((a1, a2, b1, b2)) => {
                                    check!(ctx, a1 == a2, format!("to_mask|{name}|does-not-commute-with-revcomp"), "{what}: mask then revcomp {:?} != revcomp then mask {:?}", show::<C>(&a1), show::<C>(&a2));
                                    check!(ctx, b1 == b2, format!("to_mask|{name}|does-not-commute-with-rev"), "{what}: mask then rev != rev then mask");
                                }
                                Err(pm) => check!(ctx, false, format!("to_mask|{name}|panics"), "{what}: revcomp of masked panicked {pm}"),
                            }
                        }
                        Err(pm) => check!(ctx, false, format!("to_mask|{name}|panics"), "{what}: panicked {pm}"),
                    }
                    let strad = straddles(a.bits, 0, n);
                    cell!(ctx, "{name}/seq/{prov}/{}/straddle={strad}{}", len_class(a.bits, n), if exact_pad.is_some() { "/exact-fit" } else { "" });
                    ctx.nontrivial(fp(&[name.as_bytes(), prov.as_bytes(), &x]));
                }
                if rep == 0 && n % 16 == 13 {
                    ctx.sample(|| json!({"codec": name, "text": a.text(&x[..n.min(60)]), "masked": a.text(&wm[..n.min(60)]), "unmasked": a.text(&wu[..n.min(60)])}));
                }
            }
        }
    });
}

fn main() {
    run_main("C20", |ctx| {
        // before anything else in the process: the first use of every masked-codec operation, from three threads at once
        ctx.first_use_race(3, |t| {
            let mi: Seq<MIupac> = ["ACgtRyKmNn-.", "nnACGTacgtSW", "BDHVbdhv"][t % 3].try_into().unwrap();
            let md: Seq<MDna> = ["ACGTacgtNn-", "nnACGTacgt", "-ttGGccAA"][t % 3].try_into().unwrap();
            fn sym<X: Codec + MaskableMut + ComplementMut>(s: X) -> (u8, u8, u8) {
                let (mut m, mut u, mut c) = (s, s, s);
                m.mask();
                u.unmask();
                c.comp();
                (m.to_bits(), u.to_bits(), c.to_bits())
            }
            let syms: Vec<(u8, u8, u8)> = MIupac::items().map(sym).collect();
            let syms2: Vec<(u8, u8, u8)> = MDna::items().map(sym).collect();
            (
                (mi.to_mask().to_string(), mi.to_unmask().to_string(), mi.to_comp().to_string(), mi.to_revcomp().to_string(), mi.to_rev().to_string()),
                (md.to_mask().to_string(), md.to_unmask().to_string(), md.to_comp().to_string(), md.to_revcomp().to_string(), md.to_rev().to_string()),
                syms,
                syms2,
            )
        });
        miupac_symbols(ctx);
        mdna_symbols(ctx);
        seqs::<MIupac>(ctx, |c| c | 4, |c| c & !4, |c| c);
        // 4-bit codec: documented toggle for A,C,G,T,N (inverting the pattern), gap and pad fixed.
        // The two placeholder symbols ?/! are kept out of these contents (nothing is documented about
        // their case); they take part in the involution group below.
        seqs::<MDna>(ctx, |c| model::mdna().canon(c ^ 0b1111).unwrap(), |c| model::mdna().canon(c ^ 0b1111).unwrap(), |c| match c { 0b0110 => 0b1000, 0b1001 => 0b0001, c => c });
        ctx.group("mdna/alternative-coded-gap-and-pad", |ctx| {
            // gap and pad have two bit patterns each; sequences holding the alternative patterns (from a raw image
            // or a bitwise union) must be masked position-wise like any other: gap and pad unchanged
            let a = model::mdna();
            for r in 0..ctx.n(300, 5000, 3) {
                let n = 1 + ctx.rng.below(if ctx.lite { 20 } else { 40 });
                let raw: Vec<u8> = (0..n).map(|i| match (i + r) % 4 { 0 => 0b0011, 1 => 0b0101, _ => *ctx.rng.pick(&[8u8, 4, 2, 1, 7, 11, 13, 14, 0, 15, 12, 10]) }).collect();
                let words: Vec<usize> = model::pack_words(4, &raw).iter().map(|w| *w as usize).collect();
                let Some(s) = Seq::<MDna>::from_raw(n, &words) else { continue };
                ctx.eval();
                let canon: Vec<u8> = raw.iter().map(|c| a.canon(*c).unwrap()).collect();
                let want: Vec<u8> = canon.iter().map(|c| a.canon(c ^ 0b1111).unwrap()).collect();
                let got = observe(|| (codes_of::<MDna>(&s.to_mask()), codes_of::<MDna>(&s.to_unmask()), codes_of::<MDna>(&s.to_mask().to_mask())));
                check!(ctx, got == Ok((want.clone(), want.clone(), canon.clone())), "to_mask|mdna|alternative-coded-gap-or-pad".to_string(), "masking {:?} (holding alternative gap/pad patterns) gives {:?}, position-wise result is {:?}", a.text(&canon), got.as_ref().map(|g| a.text_lossy(&g.0)), a.text(&want));
                ctx.nontrivial(fp(&[b"altgap", &raw]));
            }
            cell!(ctx, "mdna/alternative-coded-gap-and-pad");
        });
        ctx.group("mdna/sequence-involution", |ctx| {
            let a = model::mdna();
            for _ in 0..ctx.n(300, 5000, 3) {
                let n = ctx.rng.below(if ctx.lite { 20 } else { 60 });
                let x = rand_codes(&mut ctx.rng, a, n);
                let s = mk::<MDna>(&x);
                ctx.eval();
                let r = observe(|| s.to_mask().to_mask());
                check!(ctx, r.as_ref().map(|q| codes_of::<MDna>(q)) == Ok(x.clone()), "to_mask|mdna|not-involutive".to_string(), "mask twice of {:?} is not the identity", a.text(&x));
                let r = observe(|| s.to_unmask().to_unmask());
                check!(ctx, r.as_ref().map(|q| codes_of::<MDna>(q)) == Ok(x.clone()), "to_unmask|mdna|not-involutive".to_string(), "unmask twice of {:?} is not the identity", a.text(&x));
                ctx.nontrivial(fp(&[b"inv", &x]));
            }
            cell!(ctx, "mdna/sequence-involution");
        });
        ctx.note("rule", json!("symbols (exhaustive): all 32 masked-IUPAC symbols — mask/unmask/to_mask/to_unmask against the documented case table (upper<->lower, '-'<->'.'), idempotence, unmask∘mask = unmask, nucleotide set unchanged, commutation with comp; all 14 masked-DNA symbols — documented toggle for A,C,G,T,N, gap and pad fixed, involution and commutation with comp for all (the placeholder symbols ?/! are only held to involution / no panic). Sequences: every length 0..=3 words+2 and long ones of 4..33 words for both codecs (both codecs in one process and one thread, so per-thread / process-wide caches are shared) (5-bit symbols straddle words at positions 12, 25, 38, 51 mod 64 — all inside the range), built by parse and by to_owned() of an offset slice: position-wise equal to the model, length kept, receiver untouched, in-place == copying, raw image, mask∘revcomp == revcomp∘mask, mask∘rev == rev∘mask. Distinct = (codec, provenance, content)."));
        ctx.note("assumptions", json!(["for the 4-bit codec the placeholder symbols ?/! are only held to involution, length preservation and absence of panics; position-wise case checks use contents without them"]));
    });
}
