//! C14 — ambiguous-codon translation is sound and complete; reverse translation is exact.
//! Oracle: expand each IUPAC symbol to its nucleotide set, translate every concrete codon with
//! NCBI table 1; brute force over all IUPAC codons for the reverse direction.
//! The first use of the two process-wide tables is raced from 8 threads.

use bio_seq::prelude::*;
use bio_seq::translation::{PartialTranslationTable, TranslationError, STANDARD};
use bsv::*;
use serde_json::json;
use std::collections::BTreeSet;

fn members(set: u8) -> Vec<u8> {
    // dna codes of the members of a set given as A=8 C=4 G=2 T=1
    let mut v = Vec::new();
    if set & 8 != 0 { v.push(0) }
    if set & 4 != 0 { v.push(1) }
    if set & 2 != 0 { v.push(2) }
    if set & 1 != 0 { v.push(3) }
    v
}
/// set of amino letters of all concrete codons matching the IUPAC codon
fn translations(c: &[u8]) -> BTreeSet<u8> {
    let mut s = BTreeSet::new();
    for &b0 in &members(c[0]) {
        for &b1 in &members(c[1]) {
            for &b2 in &members(c[2]) {
                s.insert(model::ncbi_amino(b0, b1, b2));
            }
        }
    }
    s
}
fn expansion(c: &[u8]) -> BTreeSet<(u8, u8, u8)> {
    let mut s = BTreeSet::new();
    for &b0 in &members(c[0]) {
        for &b1 in &members(c[1]) {
            for &b2 in &members(c[2]) {
                s.insert((b0, b1, b2));
            }
        }
    }
    s
}
fn codons_of(letter: u8) -> BTreeSet<(u8, u8, u8)> {
    let mut s = BTreeSet::new();
    for b0 in 0..4 {
        for b1 in 0..4 {
            for b2 in 0..4 {
                if model::ncbi_amino(b0, b1, b2) == letter {
                    s.insert((b0, b1, b2));
                }
            }
        }
    }
    s
}

/// judge one forward query; returns a violation description or None
fn judge_forward(codon: &[u8], got: &Result<Amino, TranslationError<Iupac, Amino>>) -> Option<(String, String)> {
    let a = model::iupac();
    if codon.iter().any(|c| *c == 0) {
        return None; // gaps: outside the soundness/completeness statement (no-panic only)
    }
    let t = translations(codon);
    match got {
        Ok(x) => {
            let l = x.to_char() as u8;
            if t.len() == 1 && t.contains(&l) {
                None
            } else if t.contains(&l) {
                Some(("unsound".into(), format!("{:?} translates to {:?} but its concrete codons code for {:?}", a.text(codon), l as char, t.iter().map(|c| *c as char).collect::<String>())))
            } else {
                Some(("wrong-residue".into(), format!("{:?} translates to {:?}, concrete codons code for {:?}", a.text(codon), l as char, t.iter().map(|c| *c as char).collect::<String>())))
            }
        }
        Err(TranslationError::AmbiguousTranslation(c)) => {
            if t.len() == 1 {
                Some(("incomplete".into(), format!("{:?} reported ambiguous but every matching codon codes for {:?}", a.text(codon), *t.iter().next().unwrap() as char)))
            } else if codes_of::<Iupac>(c) != codon {
                Some(("error-payload".into(), format!("{:?}: ambiguity error names codon {:?}", a.text(codon), show::<Iupac>(c))))
            } else {
                None
            }
        }
        Err(e) => Some(("wrong-error".into(), format!("{:?}: three-symbol codon gives {:?}", a.text(codon), e))),
    }
}

/// all 21 amino symbols through try_to_codon against a brute-force search for exactly-matching IUPAC codons
fn reverse_all(ctx: &mut Ctx) {
    let a = model::iupac();
    let am = model::amino();
        // brute force: which gap-free IUPAC codons expand to exactly the codon set of each amino acid?
        for s in Amino::items() {
            ctx.eval();
            let letter = s.to_char() as u8;
            let cs = codons_of(letter);
            let mut exact: Vec<[u8; 3]> = Vec::new();
            if ctx.lite {
                // reduced budgets: the brute-force oracle is too slow under an interpreter; only
                // execute the call and its translate-back (the oracle comparison runs natively)
                let r = observe(|| STANDARD.try_to_codon(s).map(|c| STANDARD.try_to_amino(&c)));
                check!(ctx, matches!(r, Ok(Ok(Ok(x))) if x == s) || matches!(r, Ok(Err(TranslationError::AmbiguousCodon(_)))), "try_to_codon|amino|does-not-translate-back".to_string(), "try_to_codon({:?}) -> {:?}", letter as char, r);
                continue;
            }
            for c0 in 1..16u8 {
                for c1 in 1..16u8 {
                    for c2 in 1..16u8 {
                        if expansion(&[c0, c1, c2]) == cs {
                            exact.push([c0, c1, c2]);
                        }
                    }
                }
            }
            match observe(|| STANDARD.try_to_codon(s)) {
                Ok(Ok(c)) => {
                    let got = codes_of::<Iupac>(&c);
                    check!(ctx, !exact.is_empty(), "try_to_codon|amino|should-be-ambiguous".to_string(), "try_to_codon({:?}) = {:?} but no single IUPAC codon matches exactly its {} codons", letter as char, show::<Iupac>(&c), cs.len());
                    check!(ctx, exact.iter().any(|e| e[..] == got[..]), "try_to_codon|amino|inexact-codon".to_string(), "try_to_codon({:?}) = {:?} which does not match all and only the codons of that amino acid (exact: {:?})", letter as char, show::<Iupac>(&c), exact.iter().map(|e| a.text(e)).collect::<Vec<_>>());
                    let back = observe(|| STANDARD.try_to_amino(&c));
                    check!(ctx, matches!(back, Ok(Ok(x)) if x == s), "try_to_codon|amino|does-not-translate-back".to_string(), "try_to_codon({:?}) = {:?} translates back to {:?}", letter as char, show::<Iupac>(&c), back);
                }
                Ok(Err(TranslationError::AmbiguousCodon(x))) => {
                    check!(ctx, exact.is_empty(), "try_to_codon|amino|should-be-exact".to_string(), "try_to_codon({:?}) reports ambiguity but {:?} matches exactly", letter as char, exact.iter().map(|e| a.text(e)).collect::<Vec<_>>());
                    check!(ctx, x == s, "try_to_codon|amino|error-payload".to_string(), "AmbiguousCodon names {:?} for {:?}", x, s);
                }
                other => check!(ctx, false, "try_to_codon|amino|wrong-error".to_string(), "try_to_codon({:?}) = {:?}", letter as char, other),
            }
            cell!(ctx, "reverse/{}/{}", letter as char, if exact.is_empty() { "ambiguous" } else { "exact" });
            ctx.nontrivial_s(&format!("rev/{}", letter as char));
            let _ = am;
        }
}

/// every gap-free IUPAC triple (owned, offset 0) judged for soundness and completeness
fn forward_gapfree(ctx: &mut Ctx, how: &str) {
    let a = model::iupac();
    let mut k = 0usize;
    for c0 in 1..16u8 {
        for c1 in 1..16u8 {
            for c2 in 1..16u8 {
                k += 1;
                if ctx.lite && k % 97 != ctx.shard % 97 {
                    continue;
                }
                if ctx.over() {
                    return;
                }
                let codon = [c0, c1, c2];
                let s: Seq<Iupac> = a.text(&codon).as_str().try_into().unwrap();
                ctx.eval();
                match observe(|| STANDARD.try_to_amino(&s)) {
                    Ok(r) => {
                        if let Some((kind, d)) = judge_forward(&codon, &r) {
                            check!(ctx, false, format!("try_to_amino|iupac|{kind}"), "{d} (tables first used {how})");
                        }
                    }
                    Err(pm) => check!(ctx, false, "try_to_amino|iupac|panics".to_string(), "{:?}: panicked {pm} (tables first used {how})", a.text(&codon)),
                }
                ctx.nontrivial(fp(&[b"fo", how.as_bytes(), &codon]));
            }
        }
    }
}

/// The two process-wide tables are lazily initialised and the reverse one is built from the forward
/// one: which direction a process uses FIRST is part of the history the property quantifies over.
/// Mode by (seed + shard) % 3 — 0: eight threads race both directions (below); 1: reverse direction
/// first, sequentially, then the whole forward domain; 2: one forward query first, then the whole
/// reverse domain, then the whole forward domain.  The 20 (thorough 300) process restarts use
/// consecutive seeds, so every check run has processes of all three kinds.
fn first_use_order(ctx: &mut Ctx) -> bool {
    let mode = (ctx.seed as usize + ctx.shard) % 3;
    if mode == 0 {
        return false;
    }
    ctx.group("first-use-race", |ctx| {
        if mode == 1 {
            reverse_all(ctx);
            forward_gapfree(ctx, "reverse-first");
            cell!(ctx, "first-use/reverse-before-forward");
        } else {
            let r = observe(|| STANDARD.try_to_amino(iupac!("ATG")));
            ctx.eval();
            check!(ctx, matches!(r, Ok(Ok(Amino::M))), "try_to_amino|iupac|wrong".to_string(), "first query of the process ATG -> {:?}", r);
            reverse_all(ctx);
            forward_gapfree(ctx, "forward-first");
            cell!(ctx, "first-use/forward-before-reverse");
        }
        ctx.count("first-use-order-processes", 1);
    });
    true
}

fn race(ctx: &mut Ctx) {
    // must run before anything else touches the tables
    ctx.group("first-use-race", |ctx| {
        let a = model::iupac();
        let results: Vec<Vec<(String, String)>> = std::thread::scope(|sc| {
            let hs: Vec<_> = (0..8)
                .map(|t| {
                    sc.spawn(move || {
                        let mut bad = Vec::new();
                        // each thread immediately queries both directions
                        let queries: [[u8; 3]; 4] = [[2, 4, 15], [5, 1, 10], [12, 2, 10], [8, 1, 13]]; // GCN YTR MGR ATH
                        let q = queries[t % 4];
                        let s: Seq<Iupac> = a.text(&q).as_str().try_into().unwrap();
                        let r = STANDARD.try_to_amino(&s);
                        if let Some((k, d)) = judge_forward(&q, &r) {
                            bad.push((format!("try_to_amino|iupac|race-{k}"), d));
                        }
                        let am = [Amino::A, Amino::L, Amino::M, Amino::W][t % 4];
                        let rc = STANDARD.try_to_codon(am);
                        let want_ok = am != Amino::L;
                        if rc.is_ok() != want_ok {
                            bad.push(("try_to_codon|amino|race-wrong".to_string(), format!("thread {t}: try_to_codon({:?}) = {:?}", am, rc.map(|c| c.to_string()))));
                        }
                        bad
                    })
                })
                .collect();
            hs.into_iter().map(|h| h.join().unwrap_or_else(|_| vec![("try_to_amino|iupac|race-thread-panicked".to_string(), "a racing thread panicked".to_string())])).collect()
        });
        for (t, bad) in results.into_iter().enumerate() {
            ctx.eval();
            for (sig, d) in bad {
                check!(ctx, false, sig, "thread {t}: {d}");
            }
        }
        cell!(ctx, "race/8-threads");
        ctx.nontrivial_s("race");
        ctx.count("race-threads", 8);
    });
}

fn main() {
    run_main("C14", |ctx| {
        if !first_use_order(ctx) {
            race(ctx);
        }
        let a = model::iupac();
        ctx.group("all-4096-iupac-triples", |ctx| {
            let mut n_ok = 0u64;
            let mut n_amb = 0u64;
            let mut k = 0usize;
            for c0 in 0..16u8 {
                for c1 in 0..16u8 {
                    for c2 in 0..16u8 {
                        k += 1;
                        if ctx.lite && (!ctx.mine(k / 3) || k % 41 != 0) {
                            continue;
                        }
                        if ctx.over() {
                            break;
                        }
                        let codon = [c0, c1, c2];
                        let pads: &[usize] = if ctx.lite { &[5] } else { &[0, 1, 14, 15] }; // 14 and 15 straddle the word boundary
                        for &pad in pads {
                            let p = Padded::<Iupac>::new(&mut ctx.rng, pad, &codon, 2);
                            ctx.eval();
                            match observe(|| STANDARD.try_to_amino(p.slice())) {
                                Ok(r) => {
                                    if pad == 0 {
                                        if r.is_ok() { n_ok += 1 } else { n_amb += 1 }
                                    }
                                    if let Some((kind, d)) = judge_forward(&codon, &r) {
                                        check!(ctx, false, format!("try_to_amino|iupac|{kind}"), "{d} (slice at pad {pad})");
                                    }
                                }
                                Err(pm) => check!(ctx, false, "try_to_amino|iupac|panics".to_string(), "{:?} at pad {pad}: panicked {pm}", a.text(&codon)),
                            }
                        }
                        let gap = codon.contains(&0);
                        ctx.cell_k(fp(&[b"t", &[c0, (c1 > 0) as u8, gap as u8]]), || format!("triples/first={}/{}", a.text(&[c0]), if gap { "with-gap" } else { "gap-free" }));
                        ctx.nontrivial(fp(&[b"t", &codon]));
                    }
                }
            }
            ctx.note("observed", json!({"triples_ok": n_ok, "triples_ambiguous_or_gapped": n_amb}));
            ctx.sample(|| json!({"domain": "all 16^3 IUPAC triples at slice pads 0,1,14,15", "ok": n_ok, "ambiguous": n_amb}));
        });
        ctx.group("other-lengths-invalid", |ctx| {
            for n in [0usize, 1, 2, 4, 5, 6, 16, 17] {
                for rep in 0..ctx.n(30, 400, 2) {
                    if ctx.over() {
                        break;
                    }
                    let codes = rand_codes(&mut ctx.rng, a, n);
                    let pad = (rep * 3) % 16;
                    let p = Padded::<Iupac>::new(&mut ctx.rng, pad, &codes, 1);
                    ctx.eval();
                    match observe(|| STANDARD.try_to_amino(p.slice())) {
                        Ok(Err(TranslationError::InvalidCodon(c))) => check!(ctx, codes_of::<Iupac>(&c) == codes, "try_to_amino|iupac|invalid-codon-payload".to_string(), "length {n}: InvalidCodon names {:?} for {:?}", show::<Iupac>(&c), a.text(&codes)),
                        Ok(other) => check!(ctx, false, "try_to_amino|iupac|length-not-invalid".to_string(), "codon {:?} of length {n} gives {:?} instead of InvalidCodon", a.text(&codes), other),
                        Err(pm) => check!(ctx, false, format!("try_to_amino|iupac|length-panics"), "codon {:?} of length {n} at pad {pad}: panicked {pm}", a.text(&codes)),
                    }
                    cell!(ctx, "other-lengths/{n}");
                    ctx.nontrivial(fp(&[b"len", &codes, &[pad as u8]]));
                }
            }
            // static literals and owned receivers too
            ctx.eval();
            let r = observe(|| (STANDARD.try_to_amino(iupac!("")), STANDARD.try_to_amino(iupac!("ACGTA")), STANDARD.try_to_amino(&Seq::<Iupac>::new())));
            check!(ctx, matches!(r, Ok((Err(TranslationError::InvalidCodon(_)), Err(TranslationError::InvalidCodon(_)), Err(TranslationError::InvalidCodon(_))))), "try_to_amino|iupac|length-static".to_string(), "empty / 5-symbol literals: {:?}", r);
        });
        ctx.group("reverse-all-21-aminos", |ctx| {
            reverse_all(ctx);
            ctx.sample(|| json!({"domain": "all 21 amino symbols", "oracle": "brute force over 15^3 gap-free IUPAC codons"}));
        });
        ctx.note("exhaustive", json!(true));
        ctx.note("rule", json!("first use of the two process-wide tables, by (seed+shard)%3: 8 threads race both directions (each judged by the oracle) / reverse direction first then the complete forward and reverse domains / forward first then both domains - the process restarts use consecutive seeds and cover all three; then the complete domain: all 16^3 IUPAC triples (15^3 gap-free judged for soundness AND completeness against the expansion through NCBI table 1; gapped ones for no-panic) at slice pads 0, 1, 14, 15 (two of them straddling a word); codons of length 0,1,2,4,5,6,16,17 must give InvalidCodon; all 21 amino symbols through try_to_codon against a brute-force search for exactly-matching IUPAC codons. Distinct = codon / (length,content,pad) / amino."));
    });
}
