//! C10 — ordering is colexicographic = numeric order of the packed integer (minimisers).
//! Oracle: lexicographic comparison of the REVERSED model code vectors.

use bio_seq::prelude::*;
use bsv::*;
use serde_json::json;
use std::cmp::Ordering;
use std::marker::PhantomData;

fn colex(x: &[u8], y: &[u8]) -> Ordering {
    x.iter().rev().cmp(y.iter().rev())
}
fn digits(bits: u8, k: usize, v: u128) -> Vec<u8> {
    (0..k).map(|i| ((v >> (i * bits as usize)) & ((1u128 << bits) - 1)) as u8).collect()
}

fn kmer_order<C: CI + Ord, const K: usize, S: KS + Ord>(ctx: &mut Ctx) {
    let a = C::alpha();
    let name = C::NAME;
    if ctx.lite && !ctx.mine_group(K) {
        return;
    }
    let kb = K * a.bits as usize;
    let codes = a.codes();
    let mk_k = |x: &[u8]| -> Kmer<C, K, S> { Kmer { _p: PhantomData, bs: S::from_u128(model::pack_u128(a.bits, x)) } };
    ctx.group(&format!("{name}/kmer-order/K{K}/{}", S::NAME), |ctx| {
        let mut all: Vec<Vec<u8>> = Vec::new();
        if kb <= 8 && !ctx.lite {
            for v in 0..(1u128 << kb) {
                let d = digits(a.bits, K, v);
                if d.iter().all(|c| codes.contains(c)) {
                    all.push(d);
                }
            }
            // all pairs
            for x in &all {
                for y in &all {
                    ctx.eval();
                    let (kx, ky) = (mk_k(x), mk_k(y));
                    let want = colex(x, y);
                    let got = kx.cmp(&ky);
                    check!(ctx, got == want, format!("Kmer::cmp|{name}|{}|not-colex", S::NAME), "{name} K={K} {}: cmp({:?},{:?}) = {got:?}, colexicographic order is {want:?}", S::NAME, a.text(x), a.text(y));
                    check!(ctx, got == kx.bs.to_u128().cmp(&ky.bs.to_u128()), format!("Kmer::cmp|{name}|{}|not-numeric", S::NAME), "{name} K={K}: cmp differs from the numeric order of the integers");
                    check!(ctx, (got == Ordering::Equal) == (kx == ky) && kx.partial_cmp(&ky) == Some(got) && (kx < ky) == (got == Ordering::Less), format!("Kmer::cmp|{name}|{}|inconsistent-with-eq", S::NAME), "{name} K={K}: cmp/eq/partial_cmp/< disagree for {:?},{:?}", a.text(x), a.text(y));
                    check!(ctx, ky.cmp(&kx) == got.reverse(), format!("Kmer::cmp|{name}|{}|not-antisymmetric", S::NAME), "{name} K={K}: cmp not antisymmetric for {:?},{:?}", a.text(x), a.text(y));
                }
            }
            cell!(ctx, "{name}/all-pairs/K{K}/{}", S::NAME);
            ctx.count("kmer-types-all-pairs", 1);
            if kb <= 6 {
                // all triples: transitivity
                for x in &all {
                    for y in &all {
                        for z in &all {
                            ctx.eval();
                            let (kx, ky, kz) = (mk_k(x), mk_k(y), mk_k(z));
                            if kx <= ky && ky <= kz {
                                check!(ctx, kx <= kz, format!("Kmer::cmp|{name}|{}|not-transitive", S::NAME), "{name} K={K}: {:?}<={:?}<={:?} but not {:?}<={:?}", a.text(x), a.text(y), a.text(z), a.text(x), a.text(z));
                            }
                        }
                    }
                }
                cell!(ctx, "{name}/all-triples/K{K}/{}", S::NAME);
                ctx.count("kmer-types-all-triples", 1);
            }
        }
        // random pairs biased to share long suffixes (the most significant end)
        for r in 0..ctx.n(60, 1500, 3) {
            if ctx.over() {
                break;
            }
            ctx.eval();
            let x = rand_codes(&mut ctx.rng, a, K);
            let mut y = x.clone();
            let split = ctx.rng.below(K + 1); // y shares the suffix [split..] with x
            for c in y.iter_mut().take(split) {
                *c = *ctx.rng.pick(&codes);
            }
            if r % 5 == 0 && split < K {
                y[split] = *ctx.rng.pick(&codes);
            }
            let z = rand_codes(&mut ctx.rng, a, K);
            let (kx, ky, kz) = (mk_k(&x), mk_k(&y), mk_k(&z));
            let want = colex(&x, &y);
            let got = kx.cmp(&ky);
            check!(ctx, got == want && got == kx.bs.to_u128().cmp(&ky.bs.to_u128()), format!("Kmer::cmp|{name}|{}|not-colex", S::NAME), "{name} K={K} {}: cmp({:?},{:?}) = {got:?}, colexicographic order is {want:?} (first difference from the end at position {:?})", S::NAME, a.text(&x), a.text(&y), (0..K).rev().find(|i| x[*i] != y[*i]));
            check!(ctx, ky.cmp(&kx) == want.reverse() && (got == Ordering::Equal) == (kx == ky), format!("Kmer::cmp|{name}|{}|inconsistent", S::NAME), "{name} K={K}: antisymmetry/eq-consistency fails for {:?},{:?}", a.text(&x), a.text(&y));
            let mut v = [kx, ky, kz];
            v.sort();
            check!(ctx, v[0] <= v[1] && v[1] <= v[2] && v[0] <= v[2], format!("Kmer::cmp|{name}|{}|not-transitive", S::NAME), "{name} K={K}: sort of 3 k-mers not ordered");
            cell!(ctx, "{name}/random-pairs/shared-suffix={}", if split == 0 { "all" } else if split == K { "none" } else { "some" });
            ctx.nontrivial(fp(&[name.as_bytes(), S::NAME.as_bytes(), &[K as u8], &x, &y]));
        }
        cell!(ctx, "{name}/K{K}/{}", S::NAME);
    });
}

/// min / max / sort over the k-mers of a sequence (usize iterator)
fn minimiser<C: CI + Ord, const K: usize, S: KS + Ord>(ctx: &mut Ctx) {
    let a = C::alpha();
    let name = C::NAME;
    if ctx.lite && !ctx.mine_group(K + 1) {
        return;
    }
    let noff = n_offsets(a.bits);
    ctx.group(&format!("{name}/minimiser/K{K}"), |ctx| {
        for _ in 0..ctx.n(6, 80, 1) {
            if ctx.over() {
                break;
            }
            let n = K + ctx.rng.below(if ctx.lite { 6 } else { 3 * per_word(a.bits) });
            let codes = rand_codes(&mut ctx.rng, a, n);
            let pad = ctx.rng.below(noff);
            let p = Padded::<C>::new(&mut ctx.rng, pad, &codes, 1);
            let s = p.slice();
            ctx.eval();
            let wins: Vec<&[u8]> = codes.windows(K).collect();
            let wmin = wins.iter().copied().min_by(|x, y| colex(x, y)).unwrap();
            let wmax = wins.iter().copied().max_by(|x, y| colex(x, y)).unwrap();
            let kmin = s.kmers::<K>().min().unwrap();
            let kmax = s.kmers::<K>().max().unwrap();
            check!(ctx, kmin.bs as u128 == model::pack_u128(a.bits, wmin), format!("kmers().min()|{name}|not-minimiser"), "{name} K={K}: min over k-mers of {:?} is {:?}, colexicographic minimiser is {:?}", a.text(&codes), kmin.to_string(), a.text(wmin));
            check!(ctx, kmax.bs as u128 == model::pack_u128(a.bits, wmax), format!("kmers().max()|{name}|wrong"), "{name} K={K}: max over k-mers of {:?} is {:?}, want {:?}", a.text(&codes), kmax.to_string(), a.text(wmax));
            let mut ks: Vec<Kmer<C, K>> = s.kmers::<K>().collect();
            ks.sort();
            let mut ws: Vec<&[u8]> = wins.clone();
            ws.sort_by(|x, y| colex(x, y));
            check!(ctx, ks.iter().map(|k| k.bs as u128).eq(ws.iter().map(|w| model::pack_u128(a.bits, w))), format!("kmers().sort()|{name}|wrong"), "{name} K={K}: sorted k-mers of {:?} differ from the colexicographically sorted windows", a.text(&codes));
            ctx.nontrivial(fp(&[b"min", name.as_bytes(), &[K as u8, pad as u8], &codes]));
        }
        // minimiser / maximiser over the k-mers of long sequences (every third far-from-small length)
        for (k, n) in huge_lengths(ctx, a.bits).into_iter().enumerate().filter(|(k, _)| (k + K) % 3 == 0) {
            let codes = structured_codes(&mut ctx.rng, a, n, k);
            let pad = (k + K) % noff;
            let p = Padded::<C>::new(&mut ctx.rng, pad, &codes, 1);
            let s = p.slice();
            ctx.eval();
            let wmin = codes.windows(K).min_by(|x, y| colex(x, y)).unwrap();
            let wmax = codes.windows(K).max_by(|x, y| colex(x, y)).unwrap();
            let r = observe(|| (s.kmers::<K>().min().map(|k| k.bs as u128), s.kmers::<K>().max().map(|k| k.bs as u128), s.kmers::<K>().count()));
            check!(ctx, r == Ok((Some(model::pack_u128(a.bits, wmin)), Some(model::pack_u128(a.bits, wmax)), n - K + 1)), format!("kmers().min()|{name}|not-minimiser"), "{name} K={K}: min / max / count over the k-mers of a sequence of {n} symbols at pad {pad}: {:x?}, want {:x} / {:x} / {}", r, model::pack_u128(a.bits, wmin), model::pack_u128(a.bits, wmax), n - K + 1);
        }
        let _ = S::NAME;
        cell!(ctx, "{name}/minimiser/K{K}");
    });
}

/// owned sequences: equal lengths must order like the k-mers / the model; in general a total order
fn seq_order<C: CI>(ctx: &mut Ctx) {
    let a = C::alpha();
    let name = C::NAME;
    let pw = per_word(a.bits);
    let codes = a.codes();
    let noff = n_offsets(a.bits);
    /// build the owned sequence in one of several ways (the order must not depend on provenance)
    fn build<C: CI>(ctx: &mut Ctx, x: &[u8], how: usize) -> Seq<C> {
        let a = C::alpha();
        match how % 5 {
            0 => mk::<C>(x),
            1 => {
                let pad = 1 + ctx.rng.below(n_offsets(a.bits).max(2) - 1);
                Padded::<C>::new(&mut ctx.rng, pad, x, 1).slice().to_owned()
            }
            2 => {
                // longer, then truncated: dead bits beyond the end hold non-zero garbage
                let mut l = x.to_vec();
                let maxc = *a.codes().iter().max().unwrap();
                l.extend(vec![maxc; 1 + ctx.rng.below(5)]);
                let mut s = mk::<C>(&l);
                s.truncate(x.len());
                s
            }
            3 => {
                let mut l = x.to_vec();
                let ne = 1 + ctx.rng.below(4);
                let extra = rand_codes(&mut ctx.rng, a, ne);
                l.extend(&extra);
                let mut s = mk::<C>(&l);
                s.remove(x.len()..);
                s
            }
            _ => {
                let mut s = Seq::<C>::with_capacity(x.len() + 70);
                for c in x {
                    s.push(C::try_from_bits(*c).unwrap());
                }
                s
            }
        }
    }
    ctx.group(&format!("{name}/seq-order-equal-length"), |ctx| {
        let mut lens = boundary_lengths(a.bits, 3);
        lens.retain(|l| *l > 0);
        lens.extend(long_lengths(a.bits)); // block-wise comparison shortcuts only engage on long sequences
        if ctx.lite {
            lens = vec![1, 2, pw + 1];
        }
        for n in lens {
            for r in 0..ctx.n(40, 600, 2) {
                if ctx.over() {
                    break;
                }
                let x = rand_codes(&mut ctx.rng, a, n);
                let mut y = x.clone();
                // differ at first / last / word-boundary / random positions, or equal
                let pos = match r % 6 { 0 => Some(0), 1 => Some(n - 1), 2 => Some((pw - 1).min(n - 1)), 3 => Some(pw.min(n - 1)), 4 => None, _ => Some(ctx.rng.below(n)) };
                if let Some(i) = pos {
                    // a different symbol; every third time the numerically closest one (differs in the low bits only)
                    y[i] = if r % 3 == 0 {
                        let mut near: Vec<u8> = codes.iter().copied().filter(|c| *c != x[i]).collect();
                        near.sort_by_key(|c| (*c ^ x[i], *c));
                        near[ctx.rng.below(near.len().min(2))]
                    } else { *ctx.rng.pick(&codes) };
                    if r % 4 == 0 && r % 3 != 0 {
                        let j = ctx.rng.below(n);
                        y[j] = *ctx.rng.pick(&codes);
                    }
                }
                let (h1, h2) = (ctx.rng.below(5), ctx.rng.below(5));
                let sx = build::<C>(ctx, &x, h1);
                let sy = build::<C>(ctx, &y, h2);
                ctx.eval();
                let want = colex(&x, &y);
                let got = sx.cmp(&sy);
                check!(ctx, got == want, format!("Seq::cmp|{name}|equal-length|order≠colex"), "{name}: cmp({:?} [built {}], {:?} [built {}]) = {got:?}, colexicographic (k-mer) order is {want:?}", a.text(&x), h1 % 5, a.text(&y), h2 % 5);
                check!(ctx, sy.cmp(&sx) == got.reverse() && (got == Ordering::Equal) == (sx == sy) && sx.partial_cmp(&sy) == Some(got) && (sx < sy) == (got == Ordering::Less) && (sx >= sy) == (got != Ordering::Less),
                    format!("Seq::cmp|{name}|inconsistent"), "{name}: cmp / == / partial_cmp / < disagree for {:?},{:?}", a.text(&x), a.text(&y));
                cell!(ctx, "{name}/seq-order/{}/built{}-{}", len_class(a.bits, n), h1 % 5, h2 % 5);
                ctx.nontrivial(fp(&[b"seq", name.as_bytes(), &x, &y, &[h1 as u8, h2 as u8]]));
                if r < 2 {
                    ctx.sample(|| json!({"codec": name, "x": a.text(&x[..n.min(50)]), "y": a.text(&y[..n.min(50)]), "expected": format!("{want:?}"), "provenance": [h1 % 5, h2 % 5]}));
                }
            }
        }
    });
    ctx.group(&format!("{name}/seq-order-huge"), |ctx| {
        // equal-length owned sequences of 2^10 .. 2^16 symbols (65 .. 2049 words): equal, and differing at the last /
        // first / a block-seam / two positions (the later one decides), structured contents
        for (k, n) in huge_lengths(ctx, a.bits).into_iter().enumerate() {
            let x = structured_codes(&mut ctx.rng, a, n, k);
            for v in 0..4usize {
                let mut y = x.clone();
                let at = [n - 1, 0, (n / 4096) * 4096 % n, n / 2][v];
                y[at] = *codes.iter().find(|c| **c != x[at]).unwrap();
                if v == 3 {
                    // a second, earlier difference in the opposite direction must not matter
                    let e = at / 2;
                    y[e] = if colex(&[y[at]], &[x[at]]) == Ordering::Less { *codes.iter().max().unwrap() } else { *codes.iter().min().unwrap() };
                }
                let (h1, h2) = (k + v, k + 2 * v + 1);
                let sx = build::<C>(ctx, &x, h1);
                let sy = build::<C>(ctx, &y, h2);
                ctx.eval();
                let want = colex(&x, &y);
                let got = sx.cmp(&sy);
                check!(ctx, got == want && sy.cmp(&sx) == want.reverse() && sx.cmp(&sx.clone()) == Ordering::Equal, format!("Seq::cmp|{name}|equal-length|order≠colex"), "{name}: two sequences of {n} symbols differing at position {at}{}: cmp = {got:?}, colexicographic order is {want:?}", if v == 3 { " and an earlier one" } else { "" });
            }
            cell!(ctx, "{name}/seq-order-huge/2^{}", usize::BITS - n.leading_zeros());
            ctx.nontrivial(fp(&[b"seqh", name.as_bytes(), &(n as u64).to_le_bytes(), &[k as u8]]));
        }
    });
    ctx.group(&format!("{name}/seq-order-total"), |ctx| {
        // unequal lengths: no particular order demanded, but it must be a total order consistent with ==
        for _ in 0..ctx.n(300, 6000, 3) {
            if ctx.over() {
                break;
            }
            let mut v: Vec<(Seq<C>, Vec<u8>)> = Vec::new();
            for _ in 0..3 {
                let n = ctx.rng.below(pw + 3);
                let mut c = rand_codes(&mut ctx.rng, a, n);
                if let Some((_, prev)) = v.last() {
                    if ctx.rng.chance(1, 2) {
                        // prefix / suffix / extension relatives
                        c = prev.clone();
                        match ctx.rng.below(3) { 0 => { c.pop(); } 1 => { if !c.is_empty() { c.remove(0); } } _ => c.push(*ctx.rng.pick(&codes)) }
                    }
                }
                let how = ctx.rng.below(5);
                v.push((build::<C>(ctx, &c, how), c));
            }
            ctx.eval();
            for i in 0..3 {
                for j in 0..3 {
                    let o = v[i].0.cmp(&v[j].0);
                    check!(ctx, o.reverse() == v[j].0.cmp(&v[i].0) && (o == Ordering::Equal) == (v[i].1 == v[j].1) && (o == Ordering::Equal) == (v[i].0 == v[j].0),
                        format!("Seq::cmp|{name}|not-total-order"), "{name}: cmp of {:?} and {:?} = {o:?} is not antisymmetric / consistent with ==", a.text(&v[i].1), a.text(&v[j].1));
                }
            }
            let (x, y, z) = (&v[0].0, &v[1].0, &v[2].0);
            let mut s = [x, y, z];
            s.sort();
            check!(ctx, s[0] <= s[1] && s[1] <= s[2] && s[0] <= s[2], format!("Seq::cmp|{name}|not-transitive"), "{name}: sort of {:?} {:?} {:?} is not ordered", a.text(&v[0].1), a.text(&v[1].1), a.text(&v[2].1));
            cell!(ctx, "{name}/seq-total-order");
            ctx.nontrivial(fp(&[b"tot", name.as_bytes(), &v[0].1, &v[1].1, &v[2].1]));
        }
        let _ = noff;
    });
}

/// equal-length sequences order like the k-mers with the same content (cross-check on the real types)
fn seq_vs_kmer<C: CI + Ord, const K: usize, S: KS + Ord>(ctx: &mut Ctx) {
    let a = C::alpha();
    let name = C::NAME;
    if ctx.lite && !ctx.mine_group(K + 2) {
        return;
    }
    ctx.group(&format!("{name}/seq-vs-kmer/K{K}"), |ctx| {
        for _ in 0..ctx.n(10, 150, 1) {
            let x = rand_codes(&mut ctx.rng, a, K);
            let mut y = x.clone();
            let i = ctx.rng.below(K);
            y[i] = *ctx.rng.pick(&a.codes());
            ctx.eval();
            let (sx, sy) = (mk::<C>(&x), mk::<C>(&y));
            let kx = Kmer::<C, K>::try_from(&sx[..]).unwrap();
            let ky = Kmer::<C, K>::try_from(&sy[..]).unwrap();
            check!(ctx, sx.cmp(&sy) == kx.cmp(&ky), format!("Seq::cmp|{name}|equal-length|differs-from-kmer"), "{name} K={K}: Seq order {:?} but k-mer order {:?} for {:?},{:?}", sx.cmp(&sy), kx.cmp(&ky), a.text(&x), a.text(&y));
            ctx.nontrivial(fp(&[b"svk", name.as_bytes(), &x, &y]));
        }
        let _ = S::NAME;
        cell!(ctx, "{name}/seq-vs-kmer/K{K}");
    });
}

/// the five codecs whose symbols are Ord (k-mers of the others are not Ord in this library)
macro_rules! ord_k64 {
    ($f:ident, $s:ty, $ctx:expr) => {{
        with_ks!($f, Dna, $s, [1,2,3,4,5,6,7,8,9,10,11,12,13,14,15,16,17,18,19,20,21,22,23,24,25,26,27,28,29,30,31,32], $ctx);
        with_ks!($f, MDna, $s, [1,2,3,4,5,6,7,8,9,10,11,12,13,14,15,16], $ctx);
        with_ks!($f, Text, $s, [1,2,3,4,5,6,7,8], $ctx);
        with_ks!($f, MIupac, $s, [1,2,3,4,5,6,7,8,9,10,11,12], $ctx);
        with_ks!($f, Degen, $s, [1,2,3,4,5,6,7,8,31,32,33,63,64], $ctx);
    }};
}
macro_rules! ord_k128 {
    ($f:ident, $ctx:expr) => {{
        with_ks!($f, Dna, u128, [1,2,3,4,16,31,32,33,34,40,47,48,49,63,64], $ctx);
        with_ks!($f, MDna, u128, [1,2,16,17,31,32], $ctx);
        with_ks!($f, Text, u128, [1,8,9,15,16], $ctx);
        with_ks!($f, MIupac, u128, [1,12,13,24,25], $ctx);
        with_ks!($f, Degen, u128, [1,6,8,64,65,127,128], $ctx);
    }};
}
macro_rules! ord_small {
    ($f:ident, $s:ty, $ctx:expr) => {{
        with_ks!($f, Dna, $s, [2, 17, 32], $ctx);
        with_ks!($f, MDna, $s, [2, 16], $ctx);
        with_ks!($f, Text, $s, [1, 8], $ctx);
        with_ks!($f, MIupac, $s, [1, 12], $ctx);
        with_ks!($f, Degen, $s, [6, 64], $ctx);
    }};
}

fn readme(ctx: &mut Ctx) {
    ctx.group("dna/readme-minimiser", |ctx| {
        ctx.eval();
        // README: the minimiser of a sequence is the minimum over its k-mers
        let seq = dna!("ACTGCGATACGATGACTAGCTAGCTAGTCGA");
        let want = seq.to_string().as_bytes().windows(8).map(|w| w.to_vec()).min_by(|x, y| {
            let cx: Vec<u8> = x.iter().map(|b| model::dna().code_of_char(*b).unwrap()).collect();
            let cy: Vec<u8> = y.iter().map(|b| model::dna().code_of_char(*b).unwrap()).collect();
            colex(&cx, &cy)
        }).unwrap();
        let m = seq.kmers::<8>().min().unwrap();
        check!(ctx, m.to_string().as_bytes() == want, "kmers().min()|dna|readme", "minimiser {:?} want {:?}", m.to_string(), String::from_utf8_lossy(&want));
        check!(ctx, kmer!("C") < kmer!("G") && kmer!("CA") < kmer!("AC") && kmer!("AAT") > kmer!("TTA"), "Kmer::cmp|dna|readme-examples", "documented examples fail");
        let (c, g): (Seq<Dna>, Seq<Dna>) = ("C".try_into().unwrap(), "G".try_into().unwrap());
        check!(ctx, c < g, "Seq::cmp|dna|equal-length|order≠colex", "Seq(\"C\") < Seq(\"G\") is false");
        cell!(ctx, "dna/readme");
    });
}

fn main() {
    run_main("C10", |ctx| {
        ctx.first_use_race(3, |t| {
            let d: Seq<Dna> = "ACGTTGCAACGTACGTACGTACGTACGTACGTTTGAC".try_into().unwrap();
            let i: Seq<Iupac> = "ACGTRYSWKMBDHVN-ACGT".try_into().unwrap();
            let mut ks: Vec<Kmer<Dna, 7>> = d[t..].kmers::<7>().collect();
            ks.sort();
            let mut ss: Vec<Seq<Iupac>> = i.windows(4 + t).map(|w| w.to_owned()).collect();
            ss.sort();
            (
                ks.iter().map(|k| k.to_string()).collect::<Vec<String>>(),
                d.kmers::<9>().min().map(|k| k.to_string()),
                d.kmers::<9>().max().map(|k| usize::from(&k)),
                ss.iter().map(|s| s.to_string()).collect::<Vec<String>>(),
                d.cmp(&d[..].to_owned()),
            )
        });
        for_each_codec!(seq_order, ctx);
        readme(ctx);
        if ctx.lite {
            ord_small!(kmer_order, usize, ctx);
            ord_small!(kmer_order, u128, ctx);
            ord_small!(minimiser, usize, ctx);
        } else {
            ord_k64!(kmer_order, usize, ctx);
            ord_k64!(kmer_order, u64, ctx);
            ord_k128!(kmer_order, ctx);
            ord_k64!(minimiser, usize, ctx);
            ord_k64!(seq_vs_kmer, usize, ctx);
        }
        ctx.note("rule", json!("k-mers of the five codecs whose symbols are Ord (dna, text, masked dna, masked iupac, degenerate; k-mers over iupac/amino do not implement Ord in this library): every (K,storage): ALL pairs when K*BITS<=8, ALL triples when K*BITS<=6 (transitivity), random pairs sharing suffixes of every length, antisymmetry, consistency with ==, numeric order of the integers; min/max/sort over kmers::<K>() of random slices at random offsets vs the model's colexicographic minimiser; owned sequences of all 7 codecs: equal-length pairs (every length class to 3 words and long ones of 4..33 words) differing at first/last/word-boundary/random positions by a random or by the numerically closest symbol, built five ways (parse, to_owned of an offset slice, truncate of a longer one, remove of a tail, push with spare capacity) must order colexicographically and like the k-mers; unequal lengths: total order consistent with ==. Distinct = (codec,K,storage,x,y) resp. (codec,x,y,provenances)."));
        ctx.note("assumptions", json!(["for unequal-length sequences no particular order is demanded (the property speaks of equal lengths)"]));
    });
}
