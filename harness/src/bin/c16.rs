//! C16 (in-harness part) — a fixed table of dna!/iupac!/kmer! literals compiled into the monitor
//! itself, compared with runtime parsing.  This part runs under Miri / ASan / memcheck like every
//! other monitor (SeqArray Deref cast on a static).  Arbitrary literals and the "does not
//! compile" half are decided by the generated programs (lib/gen.py), driven by ./check.

use bio_seq::prelude::*;
use bsv::*;
use serde_json::json;

fn judge<C: CI>(ctx: &mut Ctx, mac: &str, lit: &'static SeqSlice<C>, text: &str) {
    let a = C::alpha();
    ctx.eval();
    let parsed = match Seq::<C>::try_from(text) {
        Ok(p) => p,
        Err(e) => {
            check!(ctx, false, format!("{mac}!|harness|table-text-invalid"), "table text {text:?} does not parse: {e:?}");
            return;
        }
    };
    let want: Vec<u8> = text.bytes().map(|b| a.code_of_char(b).unwrap()).collect();
    check!(ctx, lit.len() == text.len(), format!("{mac}!|{}|length", C::NAME), "{mac}!({text:?}) has len {}", lit.len());
    check!(ctx, codes_of::<C>(lit) == want, format!("{mac}!|{}|symbols", C::NAME), "{mac}!({text:?}) reads {:?}", show::<C>(lit));
    check!(ctx, lit == parsed && parsed == lit && *lit == parsed[..], format!("{mac}!|{}|not-equal-to-parse", C::NAME), "{mac}!({text:?}) != runtime parse");
    check!(ctx, hash_stream(lit) == hash_stream(&parsed), format!("{mac}!|{}|hash", C::NAME), "{mac}!({text:?}) hashes differently from the runtime parse");
    check!(ctx, show::<C>(lit) == text, format!("{mac}!|{}|display", C::NAME), "{mac}!({text:?}) displays {:?}", show::<C>(lit));
    for i in [0, text.len() / 2, text.len().saturating_sub(1)] {
        if i < text.len() {
            check!(ctx, lit.nth(i).to_bits() == want[i] && lit[i..].len() == text.len() - i, format!("{mac}!|{}|nth", C::NAME), "{mac}!({text:?}).nth({i}) wrong");
        }
    }
    let (head, bits) = lit.verif_layout();
    check!(ctx, head == 0 && bits == text.len() * a.bits as usize, format!("{mac}!|{}|layout", C::NAME), "{mac}!({text:?}) head {head} bits {bits}");
    cell!(ctx, "{mac}/{}", len_class(a.bits, text.len()));
    ctx.nontrivial_s(&format!("{mac}/{text}"));
    ctx.sample(|| json!({"macro": mac, "literal": &text[..text.len().min(70)], "len": text.len()}));
}

macro_rules! d {
    ($ctx:expr, $t:literal) => {
        judge::<Dna>($ctx, "dna", dna!($t), $t)
    };
}
macro_rules! i {
    ($ctx:expr, $t:literal) => {
        judge::<Iupac>($ctx, "iupac", iupac!($t), $t)
    };
}
macro_rules! k {
    ($ctx:expr, $t:literal) => {{
        $ctx.eval();
        let parsed: Seq<Dna> = $t.try_into().unwrap();
        let k = kmer!($t);
        check!($ctx, k.to_string() == $t && k == parsed && k.len() == $t.len() && hash_stream(&k) == hash_stream(&parsed), "kmer!|dna|usize".to_string(), "kmer!({:?}) = {:?}", $t, k.to_string());
        let k = kmer!($t, u64);
        check!($ctx, k.to_string() == $t && k == parsed[..] && hash_stream(&k) == hash_stream(&parsed), "kmer!|dna|u64".to_string(), "kmer!({:?}, u64) = {:?}", $t, k.to_string());
        let k = kmer!($t, u128);
        check!($ctx, k.to_string() == $t && k == parsed[..] && hash_stream(&k) == hash_stream(&parsed), "kmer!|dna|u128".to_string(), "kmer!({:?}, u128) = {:?}", $t, k.to_string());
        cell!($ctx, "kmer/K{}", $t.len());
        $ctx.nontrivial_s(&format!("kmer/{}", $t));
    }};
}

fn main() {
    run_main("C16", |ctx| {
        ctx.group("dna-literals", |ctx| {
            d!(ctx, "");
            d!(ctx, "A");
            d!(ctx, "C");
            d!(ctx, "G");
            d!(ctx, "T");
            d!(ctx, "ACGT");
            d!(ctx, "TGCATGCATGCATGC");
            d!(ctx, "TGCATGCATGCATGCA");
            d!(ctx, "TGCATGCATGCATGCAT");
            d!(ctx, "ACGTTGCAACGTTGCAACGTTGCAACGTTGC");
            d!(ctx, "ACGTTGCAACGTTGCAACGTTGCAACGTTGCA");
            d!(ctx, "ACGTTGCAACGTTGCAACGTTGCAACGTTGCAT");
            d!(ctx, "GGGGGGGGGGGGGGGGGGGGGGGGGGGGGGGGGGGGGGGGGGGGGGGGGGGGGGGGGGGGGGG");
            d!(ctx, "GGGGGGGGGGGGGGGGGGGGGGGGGGGGGGGGGGGGGGGGGGGGGGGGGGGGGGGGGGGGGGGT");
            d!(ctx, "GGGGGGGGGGGGGGGGGGGGGGGGGGGGGGGGGGGGGGGGGGGGGGGGGGGGGGGGGGGGGGGTC");
            d!(ctx, "TTAGCATCGATCGATTAGACGTACGTTGACCAGTAGCATCGATCGATTAGACGTACGATTGACCAGTAGCATCGATCGATTAGACGTACGTTGACCAGTAGCATCGATCGATTAGACGTACGATTGACC");
            d!(ctx, "TTAGCATCGATCGATTAGACGTACGTTGACCAGTAGCATCGATCGATTAGACGTACGATTGACCAGTAGCATCGATCGATTAGACGTACGTTGACCAGTAGCATCGATCGATTAGACGTACGATTGACCA");
            d!(ctx, "TTAGCATCGATCGATTAGACGTACGTTGACCAGTAGCATCGATCGATTAGACGTACGATTGACCAGTAGCATCGATCGATTAGACGTACGTTGACCAGTAGCATCGATCGATTAGACGTACGATTGACCAGTAGCATCGATCGATTAGACGTACGATTGACCAGTAGCATCGATCGATTAGACGTACGTTGACCAGTAGCATCGATCGATTAGACG");
        });
        ctx.group("iupac-literals", |ctx| {
            i!(ctx, "");
            i!(ctx, "-");
            i!(ctx, "N");
            i!(ctx, "B");
            i!(ctx, "V");
            i!(ctx, "ACGTRYSWKMBDHVN-");
            i!(ctx, "ACGTRYSWKMBDHVN");
            i!(ctx, "ACGTRYSWKMBDHVN-A");
            i!(ctx, "VHDBMKWSYRTGCA-NVHDBMKWSYRTGCA-");
            i!(ctx, "VHDBMKWSYRTGCA-NVHDBMKWSYRTGCA-N");
            i!(ctx, "VHDBMKWSYRTGCA-NVHDBMKWSYRTGCA-NB");
            i!(ctx, "ACGTRYSWKMBDHVN-ACGTRYSWKMBDHVN-ACGTRYSWKMBDHVN-ACGTRYSWKMBDHVN-ACGTRYSWKMBDHVN-ACGTRYSWKMBDHVN-ACGTRYSWKMBDHVN-ACGTRYSWKMBDHVN-V");
        });
        ctx.group("kmer-literals", |ctx| {
            k!(ctx, "A");
            k!(ctx, "T");
            k!(ctx, "GATTACA");
            k!(ctx, "TGCATGCATGCATGCA");
            k!(ctx, "ACGTTGCAACGTTGCAACGTTGCAACGTTGC");
            k!(ctx, "ACGTTGCAACGTTGCAACGTTGCAACGTTGCA");
            // X is the macro's second spelling of the gap
            ctx.eval();
            check!(ctx, iupac!("AXN") == iupac!("A-N") && iupac!("X").nth(0) == Iupac::X, "iupac!|iupac|X-alias".to_string(), "iupac!(\"AXN\") != iupac!(\"A-N\")");
        });
        ctx.note("rule", json!("see evidence.coverage.rule of the generated-program stage; this in-harness table (18 dna!, 12 iupac!, 6 kmer! x 3 storages at every word-boundary length class) exists so that literal statics are also exercised under Miri / ASan / memcheck"));
    });
}
