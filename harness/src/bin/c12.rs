//! C12 — IUPAC sequences behave as per-position nucleotide sets under |, & and contains.
//! Oracle: union / intersection / subset on the documented one-hot sets (A=8 C=4 G=2 T=1).

use bio_seq::prelude::*;
use bitvec::prelude::*;
use bsv::*;
use serde_json::json;
use std::marker::PhantomData;

fn image(s: &Seq<Iupac>) -> (String, Vec<u64>) {
    (show::<Iupac>(s), model::live_bits(s.into_raw(), s.len() * 4))
}

fn ops(ctx: &mut Ctx, x: &[u8], y: &[u8], p1: usize, p2: usize, tag: &str) {
    let a = model::iupac();
    let n = x.len();
    let a1 = Padded::<Iupac>::new(&mut ctx.rng, p1, x, 2);
    let a2 = Padded::<Iupac>::new(&mut ctx.rng, p2, y, 2);
    let (b1, b2) = (image(&a1.parent), image(&a2.parent));
    let (s1, s2) = (a1.slice(), a2.slice());
    let or: Vec<u8> = x.iter().zip(y).map(|(p, q)| p | q).collect();
    let and: Vec<u8> = x.iter().zip(y).map(|(p, q)| p & q).collect();
    ctx.eval();
    let what = format!("iupac {:?}@pad{p1} vs {:?}@pad{p2} ({tag})", a.text(x), a.text(y));
    match observe(|| (s1 | s2, s1 & s2, s2 | s1, s2 & s1)) {
        Ok((o, n_, o2, n2)) => {
            check!(ctx, o.len() == n && n_.len() == n, "bitor|iupac|length".to_string(), "{what}: result lengths {} {}", o.len(), n_.len());
            check!(ctx, codes_of::<Iupac>(&o) == or, "bitor|iupac|not-union".to_string(), "{what}: | gives {:?}, union is {:?}", show::<Iupac>(&o), a.text(&or));
            check!(ctx, codes_of::<Iupac>(&n_) == and, "bitand|iupac|not-intersection".to_string(), "{what}: & gives {:?}, intersection is {:?}", show::<Iupac>(&n_), a.text(&and));
            check!(ctx, o2 == o && n2 == n_, "bitor|iupac|not-commutative".to_string(), "{what}: swapping the operands changes the result");
        }
        Err(pm) => check!(ctx, false, "bitor|iupac|panics".to_string(), "{what}: panicked {pm}"),
    }
    // owned forms
    match observe(|| (s1.to_owned().bit_or(s2.to_owned()), s1.to_owned().bit_and(s2.to_owned()))) {
        Ok((o, n_)) => {
            check!(ctx, codes_of::<Iupac>(&o) == or && o.len() == n, "bit_or|iupac|not-union".to_string(), "{what}: bit_or gives {:?}, union is {:?}", show::<Iupac>(&o), a.text(&or));
            check!(ctx, codes_of::<Iupac>(&n_) == and && n_.len() == n, "bit_and|iupac|not-intersection".to_string(), "{what}: bit_and gives {:?}, intersection is {:?}", show::<Iupac>(&n_), a.text(&and));
        }
        Err(pm) => check!(ctx, false, "bit_or|iupac|panics".to_string(), "{what}: owned forms panicked {pm}"),
    }
    // mixed operand kinds: &Seq (deref) with an offset slice
    let owned1 = s1.to_owned();
    let mixed = &owned1[..] | s2;
    check!(ctx, codes_of::<Iupac>(&mixed) == or, "bitor|iupac|owned-with-slice".to_string(), "{what}: owned | slice gives {:?}", show::<Iupac>(&mixed));
    check!(ctx, image(&a1.parent) == b1 && image(&a2.parent) == b2, "bitor|iupac|operand-changed".to_string(), "{what}: an operand changed");
    // contains: pattern x, argument y
    let want = x.iter().zip(y).all(|(p, q)| q & !p == 0);
    let got = [s1.contains(s2), s1.to_owned().contains(s2)];
    check!(ctx, got[0] == want && got[1] == want, "contains|iupac|wrong".to_string(), "{what}: contains gives slice:{} owned:{}, every position subset: {want}", got[0], got[1]);
    let (h1, _) = s1.verif_layout();
    let (h2, _) = s2.verif_layout();
    ctx.cell_k(fp(&[b"ops", &[h1 as u8, h2 as u8]]), || format!("iupac/ops/head{h1}/head{h2}"));
    ctx.nontrivial(fp(&[b"ops", x, y, &[p1 as u8, p2 as u8]]));
}

fn main() {
    run_main("C12", |ctx| {
        let a = model::iupac();
        let codes = a.codes();
        // before anything else in the process: first use of the set operations from three threads at once
        ctx.first_use_race(3, |t| {
            let x: Seq<Iupac> = ["ACGTRYSWKMBDHVN-ACGTN", "NNNNACGT", "RYSWKMBDHVN-ACGT"][t % 3].try_into().unwrap();
            let y: Seq<Iupac> = ["AAAAAAAAAAAAAAAA-NNNN", "ACGTACGT", "NNNNNNNNNNNNNNNN"][t % 3].try_into().unwrap();
            let d: Seq<Dna> = "ACGTTGCA".try_into().unwrap();
            (
                (&x[..] | &y[..]).to_string(),
                (&x[..] & &y[..]).to_string(),
                x.contains(&y),
                y.contains(&x),
                x.to_comp().to_string(),
                x.to_revcomp().to_string(),
                Seq::<Iupac>::from(&d[..]).to_string(),
                Iupac::items().map(|s| s.to_comp().to_bits()).collect::<Vec<u8>>(),
            )
        });
        ctx.group("iupac/all-256-symbol-pairs-at-every-position", |ctx| {
            // a 20-symbol window; every ordered symbol pair is placed at every position in turn,
            // the two operands sitting at independent offsets (16 x 16 combinations)
            let combos: Vec<(usize, usize)> = if ctx.lite { vec![(ctx.shard % 16, (ctx.shard * 7 + 3) % 16), (0, 0)] }
                else { (0..16).flat_map(|i| (0..16).map(move |j| (i, j))).collect() };
            let mut k = 0usize;
            for (p1, p2) in combos {
                // one pass: 256 pairs spread over the 20 positions (13 windows of 20 cover all pairs)
                let mut pairs: Vec<(u8, u8)> = codes.iter().flat_map(|x| codes.iter().map(move |y| (*x, *y))).collect();
                let rot = ctx.rng.below(256);
                pairs.rotate_left(rot);
                for chunk in pairs.chunks(20) {
                    k += 1;
                    if ctx.over() || (ctx.lite && !ctx.mine(k)) {
                        continue;
                    }
                    let x: Vec<u8> = chunk.iter().map(|p| p.0).collect();
                    let y: Vec<u8> = chunk.iter().map(|p| p.1).collect();
                    ops(ctx, &x, &y, p1, p2, "all-pairs");
                    for (p, q) in chunk {
                        ctx.cell_k(fp(&[b"pair", &[*p, *q]]), || format!("iupac/symbol-pair/{}{}", a.text(&[*p]), a.text(&[*q])));
                    }
                }
                ctx.sample(|| json!({"operand_pads": [p1, p2], "pairs": "all 256 ordered symbol pairs, 20 per window"}));
            }
        });
        ctx.group("iupac/exact-fit", |ctx| {
            // both operands in allocations without spare words, windows ending at the end of the allocation
            // (whole-word lengths, aligned and unaligned starts): an access to "the next word" leaves the allocation
            for (k, (n, pad)) in exact_fit_cases_for(ctx, 4).into_iter().enumerate() {
                if ctx.lite && !ctx.mine(k) {
                    continue;
                }
                let _fit = exact_fit_mode();
                let x = rand_codes(&mut ctx.rng, a, n);
                let y: Vec<u8> = x.iter().map(|c| c & ctx.rng.byte()).collect();
                let y2 = rand_codes(&mut ctx.rng, a, n);
                ops(ctx, &x, &y, pad, pad, "exact-fit");
                ops(ctx, &y2, &x, 0, pad, "exact-fit");
                cell!(ctx, "iupac/exact-fit/{}/pad{}", len_class(4, n), pad % 16);
            }
        });
        ctx.group("iupac/huge", |ctx| {
            // 2^10 .. 2^16 symbols and 65 .. 2049 machine words; the argument is a subset of the pattern everywhere
            // except at one offending position placed in the tail after the last full block of 4096 / 1024 / 256
            // symbols, in the first block, at a block seam, or nowhere
            for (k, n) in huge_lengths(ctx, 4).into_iter().enumerate() {
                let x = structured_codes(&mut ctx.rng, a, n, k);
                let mut y: Vec<u8> = x.iter().map(|c| c & ctx.rng.byte()).collect();
                let blk = [4096usize, 1024, 256, 64][k % 4];
                let pos = match k % 5 {
                    0 => Some(n - 1 - ctx.rng.below((n % blk).max(1))),       // in the tail after the last full block
                    1 => Some(ctx.rng.below(blk.min(n))),                      // in the first block
                    2 => Some(((n / blk) * blk).saturating_sub(1).min(n - 1)), // last position of the last full block
                    3 => Some((n / blk) * blk % n),                            // first position of the tail
                    _ => None,
                };
                if let Some(p) = pos {
                    let stray = (1u8 << ctx.rng.below(4)) & !x[p];
                    y[p] |= if stray != 0 { stray } else { !x[p] & 15 };
                }
                let (p1, p2) = [(0, 0), (1, 0), (0, 3), (5, 9)][k % 4];
                ops(ctx, &x, &y, p1, p2, "huge");
                cell!(ctx, "iupac/huge/2^{}", usize::BITS - n.leading_zeros());
            }
        });
        ctx.group("iupac/random-longer", |ctx| {
            for r in 0..ctx.n(6000, 120_000, 4) {
                if ctx.over() {
                    break;
                }
                let longs = long_lengths(4);
                let n = if ctx.lite { ctx.rng.below(20) } else if r % 12 == 11 { longs[(r / 12) % longs.len()] } else { *ctx.rng.pick(&[0usize, 1, 15, 16, 17, 31, 32, 33, 47, 48, 49, 63, 64, 65, 80, 96, 97, 128, 130]) + if r % 3 == 0 { ctx.rng.below(5) } else { 0 } };
                // patterns: random, or a single repeated symbol (every position has the same spare bits)
                let x = if r % 5 == 4 { vec![*ctx.rng.pick(&codes); n] } else { rand_codes(&mut ctx.rng, a, n) };
                // y: a subset of x everywhere (contains true), a subset except at 1-4 offending positions
                // (spaced by multiples of 16 symbols = one machine word, or randomly; equal or different
                // stray bits), or fully random
                let mut y: Vec<u8> = match r % 4 { 0 | 1 | 2 => x.iter().map(|c| c & ctx.rng.byte()).collect(), _ => rand_codes(&mut ctx.rng, a, n) };
                if r % 4 >= 1 && r % 4 <= 2 && n > 0 {
                    let k = 1 + ctx.rng.below(4);
                    let first = ctx.rng.below(n);
                    let stride = *ctx.rng.pick(&[16usize, 16, 32, 1, 7, 48]);
                    let stray0 = 1u8 << ctx.rng.below(4);
                    for j in 0..k {
                        let pos = if r % 8 < 4 { (first + j * stride) % n } else { ctx.rng.below(n) };
                        let stray = if ctx.rng.chance(2, 3) { stray0 } else { 1u8 << ctx.rng.below(4) };
                        if x[pos] & stray == 0 {
                            y[pos] |= stray; // a nucleotide the pattern does not allow at this position
                        }
                    }
                }
                // runs of gaps in the argument (whole machine words of '-', aligned to the argument's start or
                // not), with or without an offender before / after the run
                if r % 6 == 5 && n >= 17 {
                    let start = if ctx.rng.chance(2, 3) { 16 * ctx.rng.below(n / 16) } else { ctx.rng.below(n - 16) };
                    let len = 16 + if ctx.rng.chance(1, 3) { ctx.rng.below(8) } else { 0 };
                    for c in y.iter_mut().skip(start).take(len) {
                        *c = 0;
                    }
                    if ctx.rng.chance(2, 3) {
                        let pos = if ctx.rng.chance(1, 2) && start + len < n { start + len + ctx.rng.below(n - start - len) } else { ctx.rng.below(n) };
                        let stray = 1u8 << ctx.rng.below(4);
                        if x[pos] & stray == 0 {
                            y[pos] |= stray;
                        }
                    }
                }
                let (p1, p2) = (ctx.rng.below(16), ctx.rng.below(16));
                ops(ctx, &x, &y, p1, p2, "random");
                cell!(ctx, "iupac/random/{}", len_class(4, n));
            }
        });
        ctx.group("iupac/contains-length-mismatch", |ctx| {
            for r in 0..ctx.n(6000, 100_000, 6) {
                if ctx.over() {
                    break;
                }
                let n = ctx.rng.below(if ctx.lite { 8 } else { 40 });
                // patterns made only of N (or empty) must still refuse other lengths
                let x: Vec<u8> = if r % 3 == 0 { vec![15; n] } else { rand_codes(&mut ctx.rng, a, n) };
                let m = match r % 4 { 0 => n + 1, 1 => n.saturating_sub(1), 2 => 0, _ => n + 1 + ctx.rng.below(20) };
                if m == n {
                    continue;
                }
                let y: Vec<u8> = (0..m).map(|i| if i < n { x[i] & ctx.rng.byte() } else { 0 }).collect();
                let (p1, p2) = (ctx.rng.below(16), ctx.rng.below(16));
                let a1 = Padded::<Iupac>::new(&mut ctx.rng, p1, &x, 1);
                let a2 = Padded::<Iupac>::new(&mut ctx.rng, p2, &y, 1);
                ctx.eval();
                let got = observe(|| (a1.slice().contains(a2.slice()), a1.slice().to_owned().contains(a2.slice())));
                check!(ctx, got == Ok((false, false)), "contains|iupac|length-mismatch-true".to_string(), "pattern {:?} (len {n}) contains argument {:?} (len {m}) gives {:?}; lengths differ so it must be false", a.text(&x), a.text(&y), got);
                cell!(ctx, "iupac/contains-mismatch/{}", if m == 0 { "arg-empty" } else if n == 0 { "pattern-empty" } else if m < n { "shorter" } else { "longer" });
                ctx.nontrivial(fp(&[b"mm", &x, &y]));
            }
        });
        ctx.group("iupac/seqarray-contains", |ctx| {
            // SeqArray receivers built from the model's packed image
            macro_rules! arr {
                ($n:literal, $w:literal) => {{
                    for r in 0..ctx.n(40, 600, 2) {
                        let x = rand_codes(&mut ctx.rng, a, $n);
                        let words = model::pack_words(4, &x);
                        let mut w = [0usize; $w];
                        for (i, v) in words.iter().enumerate() {
                            w[i] = *v as usize;
                        }
                        let arr: SeqArray<Iupac, $n, $w> = SeqArray { _p: PhantomData, ba: BitArray::new(w) };
                        let m = if r % 3 == 0 { $n + 1 } else { $n };
                        let y: Vec<u8> = (0..m).map(|i| if i < $n { x[i] & (if r % 2 == 0 { 15 } else { ctx.rng.byte() }) } else { 0 }).collect();
                        let pad = ctx.rng.below(16);
                        let p = Padded::<Iupac>::new(&mut ctx.rng, pad, &y, 1);
                        ctx.eval();
                        let want = m == $n && x.iter().zip(&y).all(|(p, q)| q & !p == 0);
                        let got = observe(|| arr.contains(p.slice()));
                        check!(ctx, got == Ok(want), "contains|iupac|seqarray-wrong".to_string(), "SeqArray<{},{}> {:?} contains {:?} gives {:?} want {want}", $n, $w, a.text(&x), a.text(&y), got);
                        let view: &SeqSlice<Iupac> = &arr;
                        check!(ctx, codes_of::<Iupac>(view) == x, "SeqArray::deref|iupac|content".to_string(), "SeqArray deref gives {:?} want {:?}", show::<Iupac>(view), a.text(&x));
                        ctx.nontrivial(fp(&[b"arr", &x, &y]));
                    }
                    cell!(ctx, "iupac/seqarray/N{}W{}", $n, $w);
                }};
            }
            arr!(1, 1);
            arr!(5, 1);
            arr!(16, 1);
            arr!(17, 2);
            arr!(33, 3);
        });
        ctx.group("iupac/from-dna+complement", |ctx| {
            for (d, set) in [(Dna::A, 8u8), (Dna::C, 4), (Dna::G, 2), (Dna::T, 1)] {
                ctx.eval();
                check!(ctx, Iupac::from(d).to_bits() == set, "Iupac::from(Dna)|iupac|not-singleton".to_string(), "Iupac::from({:?}) = {:?}", d, Iupac::from(d));
            }
            for &c in &codes {
                ctx.eval();
                let s = Iupac::try_from_bits(c).unwrap();
                check!(ctx, s.to_comp().to_bits() == model::iupac_set_comp(c), "Iupac::to_comp|iupac|not-memberwise".to_string(), "comp({:?}) = {:?}", s, s.to_comp());
                cell!(ctx, "iupac/comp/{}", s.to_char());
            }
            // sequence level
            for _ in 0..ctx.n(50, 500, 2) {
                let n = ctx.rng.below(40);
                let x = rand_codes(&mut ctx.rng, a, n);
                let pad = ctx.rng.below(16);
                let p = Padded::<Iupac>::new(&mut ctx.rng, pad, &x, 1);
                ctx.eval();
                let want: Vec<u8> = x.iter().map(|c| model::iupac_set_comp(*c)).collect();
                check!(ctx, codes_of::<Iupac>(&p.slice().to_comp()) == want, "SeqSlice::to_comp|iupac|not-memberwise".to_string(), "to_comp of {:?} wrong", a.text(&x));
            }
        });
        ctx.note("rule", json!("all 256 ordered IUPAC symbol pairs, 20 per window, with the two operands at independent bit offsets (all 16 x 16 offset combinations): &a|&b, &a&&b in both operand orders, bit_or/bit_and on owned copies, owned|slice, operands unchanged, contains on slice and owned receivers; random equal-length pairs up to 8 words (every 12th: 4..33 words) whose argument is a subset of the pattern everywhere, or everywhere except at 1-4 offending positions, or with whole-word runs of gaps followed or preceded by an offender, (spaced by whole machine words or randomly, with equal or different stray nucleotides), or random; contains with every kind of length mismatch incl. all-N and empty patterns; SeqArray<N,W> receivers built from the packed model; Iupac::from(Dna) and member-wise complement for every code. Distinct = (x, y, pad1, pad2)."));
    });
}
