//! C02 — equality and hashing depend only on content, for every sequence type and offset.
//! Oracle: model equality; "identical data to any hasher" = the concatenated byte stream a
//! recording Hasher receives (plus DefaultHasher output).  Unequal values are not required to
//! hash differently.

use bio_seq::prelude::*;
use bitvec::prelude::*;
use bsv::*;
use serde_json::json;
use std::collections::{BTreeMap, HashMap};
use std::marker::PhantomData;

/// y-variants of a content x
fn variants(ctx: &mut Ctx, a: &model::Alphabet, x: &[u8]) -> Vec<(&'static str, Vec<u8>)> {
    let n = x.len();
    let codes = a.codes();
    let mut v: Vec<(&'static str, Vec<u8>)> = vec![("equal", x.to_vec()), ("empty", vec![])];
    let mut diff_at = |i: usize, rng: &mut Rng| {
        let mut y = x.to_vec();
        loop {
            let c = *rng.pick(&codes);
            if c != y[i] {
                y[i] = c;
                break;
            }
        }
        y
    };
    if n > 0 {
        v.push(("diff-first", diff_at(0, &mut ctx.rng)));
        v.push(("diff-last", diff_at(n - 1, &mut ctx.rng)));
        let pw = per_word(a.bits);
        for b in [pw.saturating_sub(1), pw, 2 * pw - 1] {
            if b < n {
                v.push(("diff-word-boundary", diff_at(b, &mut ctx.rng)));
            }
        }
        let r = ctx.rng.below(n);
        v.push(("diff-random", diff_at(r, &mut ctx.rng)));
        v.push(("proper-prefix", x[..n - 1].to_vec()));
        v.push(("proper-suffix", x[1..].to_vec()));
        let mut longer = x.to_vec();
        longer.push(codes[0]); // extension by the zero-most code: a prefix in the other direction
        v.push(("extended-by-first-symbol", longer));
    }
    if ctx.lite {
        // interpreter budgets: the equal copy plus two other relations, rotating with the shard
        let k = v.len();
        let (i, j) = (1 + ctx.shard % (k - 1), 1 + (ctx.shard * 3 + 2) % (k - 1));
        v = vec![v[0].clone(), v[i].clone(), v[j].clone()];
    }
    v
}

fn pair<C: CI>(ctx: &mut Ctx, x: &[u8], y: &[u8], kind: &str, p1: usize, p2: usize) {
    let a = C::alpha();
    let name = C::NAME;
    let want = x == y;
    let sx = mk::<C>(x);
    // the right operand's HISTORY varies: freshly built, or a longer value shortened in place (truncate /
    // remove of the suffix), which leaves non-zero dead bits beyond its length in the last word and spare capacity
    let mode = if exact_fit_on() { 0 } else { (p1 + p2 + x.len()) % 3 };
    let sy = if mode == 0 {
        mk::<C>(y)
    } else {
        let mut j = y.to_vec();
        j.extend(rand_codes(&mut ctx.rng, a, 1 + (p2 + y.len()) % 37));
        let mut s = mk::<C>(&j);
        if mode == 1 {
            s.truncate(y.len());
        } else {
            s.remove(y.len()..);
        }
        s
    };
    let kind = &format!("{kind}/rhs-{}", ["fresh", "truncated-in-place", "suffix-removed-in-place"][mode]);
    let px = Padded::<C>::new(&mut ctx.rng, p1, x, 2);
    let py = Padded::<C>::new(&mut ctx.rng, p2, y, 2);
    let ax: &SeqSlice<C> = px.slice();
    let ay: &SeqSlice<C> = py.slice();
    let (h1, _) = ax.verif_layout();
    let (h2, _) = ay.verif_layout();
    let what = format!("{name} x={:?}@pad{p1} y={:?}@pad{p2} ({kind})", a.text(&x[..x.len().min(40)]), a.text(&y[..y.len().min(40)]));
    // every pairing that exists, both operators, both directions
    let results: Vec<(&str, bool, bool)> = vec![
        ("Seq==Seq", sx == sy, sx != sy),
        ("Seq==Seq(rev)", sy == sx, sy != sx),
        ("Seq==SeqSlice", sx == *ay, sx != *ay),
        ("Seq==&SeqSlice", sx == ay, sx != ay),
        ("&Seq==Seq", &sx == sy, &sx != sy),
        ("Seq==&Seq", sx == &sy, sx != &sy),
        ("SeqSlice==SeqSlice", *ax == *ay, *ax != *ay),
        ("SeqSlice==SeqSlice(rev)", *ay == *ax, *ay != *ax),
        ("&SeqSlice==SeqSlice", ax == *ay, ax != *ay),
        ("&SeqSlice==&SeqSlice", ax == ay, ax != ay),
        ("SeqSlice==Seq", *ax == sy, *ax != sy),
        ("&SeqSlice==Seq", ax == sy, ax != sy),
        ("SeqSlice==Seq(rev)", *ay == sx, *ay != sx),
        ("Seq==&SeqSlice(rev)", sy == ax, sy != ax),
    ];
    for (pairing, eq, ne) in results {
        ctx.eval();
        check!(ctx, eq == want, format!("{pairing}|{name}|{}", if want { "equal-content-unequal" } else { "different-content-equal" }), "{what}: {pairing} gives {eq}, contents are {}", if want { "identical" } else { "different" });
        check!(ctx, ne == !want, format!("{pairing}|{name}|ne-inconsistent"), "{what}: != gives {ne}");
        ctx.cell_k(fp(&[name.as_bytes(), pairing.as_bytes(), &[h1 as u8, h2 as u8]]), || format!("{name}/{pairing}/head{h1}/head{h2}"));
    }
    cell!(ctx, "{name}/relation/{kind}/{}", len_class(a.bits, x.len()));
    // text comparisons
    ctx.eval();
    let ty = a.text(y);
    check!(ctx, (*ax == ty.as_str()) == want, format!("SeqSlice==&str|{name}|wrong"), "{what}: slice == {:?} gives {}", ty, *ax == ty.as_str());
    check!(ctx, (*ax != ty.as_str()) == !want, format!("SeqSlice==&str|{name}|ne-inconsistent"), "{what}: slice != text inconsistent");
    let tx = ax.to_string();
    check!(ctx, *ax == tx.as_str() && sx[..] == tx.as_str(), format!("SeqSlice==&str|{name}|own-display"), "{what}: slice does not equal its own displayed text {:?}", tx);
    // hashing: equal values feed identical data
    if want {
        ctx.eval();
        let hs = [hash_stream(&sx), hash_stream(ax), hash_stream(&sy), hash_stream(ay), hash_stream(&&sx), hash_stream(&ax)];
        check!(ctx, hs.iter().all(|h| *h == hs[0]), format!("hash|{name}|equal-values-different-stream"),
            "{what}: equal values feed different data to the hasher: Seq {} bytes, slice@{h1} {} bytes, Seq {} bytes, slice@{h2} {} bytes", hs[0].len(), hs[1].len(), hs[2].len(), hs[3].len());
        check!(ctx, default_hash(&sx) == default_hash(ay) && default_hash(ax) == default_hash(ay), format!("hash|{name}|defaulthasher"), "{what}: DefaultHasher outputs differ for equal values");
        ctx.cell_k(fp(&[b"hash", name.as_bytes(), &[h1 as u8, h2 as u8]]), || format!("{name}/hash/head{h1}/head{h2}"));
    }
    ctx.nontrivial(fp(&[name.as_bytes(), x, y, &[p1 as u8, p2 as u8]]));
}

/// two windows of the SAME parent buffer
fn same_parent<C: CI>(ctx: &mut Ctx, x: &[u8], y: &[u8], p1: usize, gap: usize) {
    let a = C::alpha();
    let name = C::NAME;
    let mut all = rand_codes(&mut ctx.rng, a, p1);
    all.extend(x);
    all.extend(rand_codes(&mut ctx.rng, a, gap));
    let ystart = all.len();
    all.extend(y);
    all.extend(rand_codes(&mut ctx.rng, a, 2));
    let parent = mk::<C>(&all);
    let wx = &parent[p1..p1 + x.len()];
    let wy = &parent[ystart..ystart + y.len()];
    let want = x == y;
    ctx.eval();
    let what = format!("{name} windows [{p1}..{}) and [{ystart}..{}) of one parent {:?}", p1 + x.len(), ystart + y.len(), a.text(&all[..all.len().min(60)]));
    check!(ctx, (wx == wy) == want && (*wx == *wy) == want && (wy == wx) == want, format!("SeqSlice==SeqSlice|{name}|same-parent"), "{what}: == gives {}, contents are {}", wx == wy, if want { "identical" } else { "different" });
    if want {
        check!(ctx, hash_stream(wx) == hash_stream(wy), format!("hash|{name}|same-parent"), "{what}: equal windows hash differently");
    }
    // overlapping windows of equal length starting one symbol apart
    if x.len() >= 2 {
        let n = x.len() - 1;
        let w1 = &parent[p1..p1 + n];
        let w2 = &parent[p1 + 1..p1 + 1 + n];
        let want2 = all[p1..p1 + n] == all[p1 + 1..p1 + 1 + n];
        check!(ctx, (w1 == w2) == want2, format!("SeqSlice==SeqSlice|{name}|same-parent-overlap"), "{what}: overlapping windows shifted by one compare {}, contents are {}", w1 == w2, if want2 { "identical" } else { "different" });
    }
    // windows of one parent with the SAME start and different lengths (a window and its own prefix,
    // an empty window), through every slice pairing
    if x.len() >= 1 {
        let full = &parent[p1..p1 + x.len()];
        for cut in [0usize, x.len() / 2, x.len() - 1] {
            let pre = &parent[p1..p1 + cut];
            let r = [full == pre, *full == *pre, full == *pre, pre == *full, pre == full, *pre == *full];
            check!(ctx, r.iter().all(|e| !*e), format!("SeqSlice==SeqSlice|{name}|same-parent-same-start-prefix"), "{what}: a window of {} symbols and its own prefix of {cut} symbols (same start in the same buffer) compare equal in pairing #{:?}", x.len(), r.iter().position(|e| *e));
            let owned = full.to_owned();
            check!(ctx, !(owned == pre) && !(owned == *pre) && !(pre == owned) && !(*pre == owned), format!("Seq==SeqSlice|{name}|same-start-prefix"), "{what}: an owned copy equals a proper prefix");
        }
    }
    cell!(ctx, "{name}/same-parent/{}", if want { "equal" } else { "different" });
    ctx.nontrivial(fp(&[b"sp", name.as_bytes(), &all, &[p1 as u8, gap as u8]]));
}

fn run<C: CI>(ctx: &mut Ctx) {
    let a = C::alpha();
    let name = C::NAME;
    let pw = per_word(a.bits);
    let noff = n_offsets(a.bits);
    ctx.group(&format!("{name}/pairs"), |ctx| {
        let mut lens = boundary_lengths(a.bits, 3);
        if ctx.lite {
            lens = vec![0, 1, pw + 1];
        } else {
            lens.extend(long_lengths(a.bits).into_iter().step_by(3));
        }
        let mut k = 0usize;
        for n in lens {
            let x = cover_codes(&mut ctx.rng, a, n);
            for (kind, y) in variants(ctx, a, &x) {
                // offsets: sweep p1 over all achievable offsets with p2 rotating, and vice versa
                let sweeps: Vec<(usize, usize)> = if ctx.lite { vec![((k * 3 + ctx.shard) % noff, (k * 5 + 1) % noff)] }
                    else if ctx.tier == Tier::Thorough || n <= pw + 2 { (0..noff).flat_map(|o| [(o, (o * 7 + k) % noff), ((o * 3 + k) % noff, o)]).collect() }
                    else { (0..noff).step_by(3).map(|o| (o, (o * 7 + k) % noff)).collect() };
                for (p1, p2) in sweeps {
                    if ctx.over() {
                        break;
                    }
                    k += 1;
                    pair::<C>(ctx, &x, &y, kind, p1, p2);
                    if k % 5 == 0 || ctx.lite {
                        same_parent::<C>(ctx, &x, &y, p1, (p2 + 1) % (pw + 1));
                    }
                }
                ctx.sample(|| json!({"codec": name, "x": a.text(&x[..x.len().min(50)]), "y": a.text(&y[..y.len().min(50)]), "relation": kind, "pairings": 14, "offsets": "all achievable for x with rotating y offset and vice versa"}));
            }
        }
    });
    ctx.group(&format!("{name}/text-inequality"), |ctx| {
        for _ in 0..ctx.n(300, 5000, 3) {
            if ctx.over() {
                break;
            }
            let n = 1 + ctx.rng.below(pw + 3);
            let x = rand_codes(&mut ctx.rng, a, n);
            let pad = ctx.rng.below(noff);
            let p = Padded::<C>::new(&mut ctx.rng, pad, &x, 1);
            let s = p.slice();
            let mut t = a.text(&x).into_bytes();
            ctx.eval();
            // one bad byte, same length
            let i = ctx.rng.below(n);
            let good = t[i];
            t[i] = *ctx.rng.pick(&a.bad_bytes().into_iter().filter(|b| *b < 0x80).collect::<Vec<u8>>());
            let st = String::from_utf8(t.clone()).unwrap();
            check!(ctx, !(*s == st.as_str()) && *s != st.as_str(), format!("SeqSlice==&str|{name}|bad-byte-equal"), "{name} {:?} compares equal to text {:?} containing a non-symbol byte", a.text(&x), st);
            t[i] = good;
            // other lengths
            let mut longer = t.clone();
            longer.push(a.canon_chars()[0]);
            let sl = String::from_utf8(longer).unwrap();
            check!(ctx, !(*s == sl.as_str()) && !(*s == &sl[..n - 1]), format!("SeqSlice==&str|{name}|other-length-equal"), "{name} {:?} compares equal to a text of another length", a.text(&x));
            cell!(ctx, "{name}/text-inequality");
            ctx.nontrivial(fp(&[b"txt", name.as_bytes(), &x, &[i as u8]]));
        }
    });
    ctx.group(&format!("{name}/exact-fit"), |ctx| {
        // both operands in allocations without spare words, windows ending at the end of their allocation
        // (whole-word lengths, aligned / unaligned starts): comparisons and hashing must not look past the content
        let cases = exact_fit_cases_for(ctx, a.bits);
        for (n, pad) in cases {
            if ctx.over() {
                break;
            }
            let _fit = exact_fit_mode();
            let x = cover_codes(&mut ctx.rng, a, n);
            for (kind, y) in variants(ctx, a, &x) {
                pair::<C>(ctx, &x, &y, kind, pad, pad);
                pair::<C>(ctx, &y, &x, kind, 0, pad);
            }
            cell!(ctx, "{name}/exact-fit/{}/pad{}", len_class(a.bits, n), if pad == 0 { "0" } else if (pad * a.bits as usize) % 64 == 0 { "word" } else { "unaligned" });
        }
    });
    ctx.group(&format!("{name}/huge"), |ctx| {
        // 2^10 .. 2^16 symbols and 65 .. 2049 machine words, random and structured contents; equal contents and
        // contents differing at the first / last / a block-seam position, the two operands at different offsets
        // (aligned vs unaligned matters for block-wise comparison and hashing)
        for (k, n) in huge_lengths(ctx, a.bits).into_iter().enumerate() {
            let x = structured_codes(&mut ctx.rng, a, n, k);
            let (p1, p2) = [(0usize, 1 % noff), (1 % noff, 0), (0, 0), (3 % noff, 7 % noff)][k % 4];
            pair::<C>(ctx, &x, &x, "equal", p1, p2);
            let mut y = x.clone();
            let at = [n - 1, 0, (n / 4096) * 4096 % n, n - 1 - (n % 4096) / 2, n / 2][k % 5];
            let codes_all = a.codes();
            y[at] = *codes_all.iter().find(|c| **c != x[at]).unwrap();
            pair::<C>(ctx, &x, &y, "diff-huge", p1, p2);
            if k % 3 == 0 {
                pair::<C>(ctx, &x, &x[..n - 1], "proper-prefix", p1, p2);
            }
            cell!(ctx, "{name}/huge/2^{}", usize::BITS - n.leading_zeros());
        }
    });
    ctx.group(&format!("{name}/hashmap"), |ctx| {
        let nkeys = ctx.n(120, 1500, 3);
        let mut modelmap: BTreeMap<Vec<u8>, usize> = BTreeMap::new();
        let mut std_map: HashMap<Seq<C>, usize> = HashMap::new();
        let mut weak_map: HashMap<Seq<C>, usize, WeakState> = HashMap::with_hasher(WeakState);
        let lens = boundary_lengths(a.bits, 2);
        for i in 0..nkeys {
            let n = if ctx.lite { ctx.rng.below(pw + 2) } else if i % 3 == 0 { *ctx.rng.pick(&lens) } else { ctx.rng.below(2 * pw + 3) };
            let mut key = rand_codes(&mut ctx.rng, a, n);
            if i % 4 == 1 {
                // prefixes / one-symbol neighbours of existing keys make Eq do the work
                if let Some((k0, _)) = modelmap.iter().nth(ctx.rng.below(modelmap.len().max(1))) {
                    key = k0.clone();
                    if !key.is_empty() && ctx.rng.chance(1, 2) { key.pop(); } else { key.push(*ctx.rng.pick(&a.codes())); }
                }
            }
            if modelmap.contains_key(&key) {
                continue;
            }
            modelmap.insert(key.clone(), i);
            std_map.insert(mk::<C>(&key), i);
            weak_map.insert(mk::<C>(&key), i);
        }
        let keys: Vec<Vec<u8>> = modelmap.keys().cloned().collect();
        let key_seqs: Vec<(Seq<C>, usize)> = modelmap.iter().map(|(k, v)| (mk::<C>(k), *v)).collect();
        let ref_map: HashMap<&Seq<C>, usize> = key_seqs.iter().map(|(k, v)| (k, *v)).collect();
        // the default value is the empty sequence
        check!(ctx, Seq::<C>::default() == Seq::<C>::new() && Seq::<C>::default().is_empty() && hash_stream(&Seq::<C>::default()) == hash_stream(&mk::<C>(&[])), format!("default|{name}|not-empty"), "{name}: Seq::default() is not the empty sequence");
        let mut distinct_orders = 0usize;
        for (qi, key) in keys.iter().enumerate() {
            if ctx.over() {
                break;
            }
            let mut queries = vec![key.clone()];
            if !key.is_empty() {
                let mut d = key.clone();
                let i = ctx.rng.below(d.len());
                d[i] = *ctx.rng.pick(&a.codes());
                queries.push(d);
                queries.push(key[..key.len() - 1].to_vec());
            }
            for q in queries {
                let pad = (qi * 5 + q.len()) % noff;
                let p = Padded::<C>::new(&mut ctx.rng, pad, &q, 1);
                let s = p.slice();
                ctx.eval();
                let want = modelmap.get(&q).copied();
                let got = std_map.get(s).copied();
                let gotw = weak_map.get(s).copied();
                check!(ctx, got == want, format!("HashMap<Seq>.get(&SeqSlice)|{name}|std-hasher"), "{name}: lookup of slice {:?}@pad{pad} gives {:?}, model {:?}", a.text(&q), got, want);
                check!(ctx, gotw == want, format!("HashMap<Seq>.get(&SeqSlice)|{name}|colliding-hasher"), "{name}: lookup (colliding hasher) of slice {:?}@pad{pad} gives {:?}, model {:?}", a.text(&q), gotw, want);
                let owned = mk::<C>(&q);
                check!(ctx, std_map.get(&owned).copied() == want, format!("HashMap<Seq>.get(&Seq)|{name}|std-hasher"), "{name}: lookup of owned {:?} wrong", a.text(&q));
                // a map keyed by references to owned sequences is searched by a borrowed slice too (Borrow for &Seq)
                let gotr = ref_map.get(s).copied();
                check!(ctx, gotr == want, format!("HashMap<&Seq>.get(&SeqSlice)|{name}|std-hasher"), "{name}: lookup of slice {:?}@pad{pad} in a map keyed by &Seq gives {:?}, model {:?}", a.text(&q), gotr, want);
                // AsRef views compare and hash like the value itself
                let (ar1, ar2): (&SeqSlice<C>, &SeqSlice<C>) = (AsRef::<SeqSlice<C>>::as_ref(s), AsRef::<SeqSlice<C>>::as_ref(&owned));
                check!(ctx, ar1 == ar2 && ar1 == s && hash_stream(ar1) == hash_stream(&owned), format!("as_ref|{name}|differs"), "{name}: AsRef views of {:?} differ from the value", a.text(&q));
                cell!(ctx, "{name}/hashmap/{}/{}", if want.is_some() { "hit" } else { "miss" }, len_class(a.bits, q.len()));
                ctx.nontrivial(fp(&[b"map", name.as_bytes(), &q, &[pad as u8]]));
                distinct_orders += 1;
            }
        }
        ctx.sample(|| json!({"codec": name, "keys": keys.len(), "lookups": distinct_orders, "hashers": ["RandomState", "8-bucket colliding hasher"]}));
    });
}

// ------------------------------------------------------------------ k-mers
fn kmer_case<C: CI, const K: usize, S: KS>(ctx: &mut Ctx) {
    let a = C::alpha();
    let name = C::NAME;
    if ctx.lite && !ctx.mine_group(K) {
        return;
    }
    let noff = n_offsets(a.bits);
    ctx.group(&format!("{name}/kmer/K{K}/{}", S::NAME), |ctx| {
        for r in 0..ctx.n(6, 40, 1) {
            if ctx.over() {
                break;
            }
            let x = if r == 1 { vec![*a.codes().iter().max().unwrap(); K] } else { rand_codes(&mut ctx.rng, a, K) };
            // rounds 0, 2, 3: the source window is the tail of an allocation without spare words, starting at symbol 0,
            // one word in, or two words in (also varies the alignment of the first word); otherwise a random offset
            let w = exact_fit_cases(a.bits)[0].0;
            let fit_pad = match r { 0 => Some(0), 2 => Some(w), 3 => Some(2 * w), _ => None };
            let _fit = fit_pad.map(|_| exact_fit_mode());
            let p1 = fit_pad.unwrap_or_else(|| ctx.rng.below(noff));
            let px = Padded::<C>::new(&mut ctx.rng, p1, &x, 2);
            let ax = px.slice();
            let kx = match observe(|| Kmer::<C, K, S>::try_from(ax)) {
                Ok(Ok(k)) => k,
                other => {
                    check!(ctx, false, format!("Kmer::try_from|{name}|{}|fails", S::NAME), "{name} K={K}: try_from of a K-long slice: {:?}", other.map(|r| r.is_ok()));
                    continue;
                }
            };
            // hashes like the slice it was copied from, and like the owned sequence
            ctx.eval();
            let hk = hash_stream(&kx);
            let hsl = hash_stream(ax);
            check!(ctx, hk == hsl, format!("hash|{name}|kmer-vs-slice|{}", S::NAME), "{name} K={K} {}: k-mer of {:?} feeds {} bytes to the hasher, the slice it was copied from {} bytes{}", S::NAME, a.text(&x), hk.len(), hsl.len(), if hk.len() == hsl.len() { " (same length, different data)" } else { "" });
            check!(ctx, default_hash(&kx) == default_hash(ax) && default_hash(&kx) == default_hash(&mk::<C>(&x)), format!("hash|{name}|kmer-vs-slice-defaulthasher|{}", S::NAME), "{name} K={K} {}: DefaultHasher of k-mer and slice differ", S::NAME);
            for (kind, y) in variants(ctx, a, &x) {
                let p2 = ctx.rng.below(noff);
                let py = Padded::<C>::new(&mut ctx.rng, p2, &y, 2);
                let ay = py.slice();
                let want = x == y;
                ctx.eval();
                let e1 = kx == *ay;
                let e2 = kx == ay;
                check!(ctx, e1 == want && e2 == want && (kx != *ay) == !want, format!("Kmer==SeqSlice|{name}|{}|wrong", S::NAME), "{name} K={K} {}: k-mer {:?} == slice {:?}@pad{p2} gives {e1}/{e2} ({kind})", S::NAME, a.text(&x), a.text(&y));
                if y.len() == K {
                    if let Ok(Ok(ky)) = observe(|| Kmer::<C, K, S>::try_from(ay)) {
                        check!(ctx, (kx == ky) == want && (ky == kx) == want && (kx != ky) == !want, format!("Kmer==Kmer|{name}|{}|wrong", S::NAME), "{name} K={K} {}: {:?} == {:?} gives {}", S::NAME, a.text(&x), a.text(&y), kx == ky);
                        if K * a.bits as usize <= 64 {
                            let w = model::pack_u128(a.bits, &y) as usize;
                            let arr: SeqArray<C, K, 1> = SeqArray { _p: PhantomData, ba: BitArray::new([w]) };
                            check!(ctx, (kx == arr) == want && (kx == &arr) == want, format!("Kmer==SeqArray|{name}|{}|wrong", S::NAME), "{name} K={K} {}: k-mer {:?} == SeqArray {:?} gives {}", S::NAME, a.text(&x), a.text(&y), kx == arr);
                        }
                    }
                }
                cell!(ctx, "{name}/kmer-eq/{kind}");
            }
            ctx.nontrivial(fp(&[b"kmer", name.as_bytes(), S::NAME.as_bytes(), &x]));
        }
        cell!(ctx, "{name}/K{K}/{}", S::NAME);
    });
}
/// pairings that exist for usize storage only: Kmer==Seq, Kmer==&str, Borrow/Deref
fn kmer_usize<C: CI, const K: usize, S: KS>(ctx: &mut Ctx) {
    let a = C::alpha();
    let name = C::NAME;
    if ctx.lite && !ctx.mine_group(K + 1) {
        return;
    }
    ctx.group(&format!("{name}/kmer-usize-pairings/K{K}"), |ctx| {
        for _ in 0..ctx.n(4, 30, 1) {
            let x = rand_codes(&mut ctx.rng, a, K);
            let sx = mk::<C>(&x);
            let kx = Kmer::<C, K>::try_from(&sx[..]).unwrap();
            for (kind, y) in variants(ctx, a, &x) {
                let want = x == y;
                let sy = mk::<C>(&y);
                ctx.eval();
                check!(ctx, (kx == sy) == want, format!("Kmer==Seq|{name}|wrong"), "{name} K={K}: k-mer {:?} == Seq {:?} gives {} ({kind})", a.text(&x), a.text(&y), kx == sy);
                let ty = a.text(&y);
                check!(ctx, (kx == ty.as_str()) == want, format!("Kmer==&str|{name}|wrong"), "{name} K={K}: k-mer {:?} == {:?} gives {}", a.text(&x), ty, kx == ty.as_str());
                // Deref: the k-mer viewed as a slice
                let view: &SeqSlice<C> = &kx;
                check!(ctx, (*view == sy) == want && (*view == *sy) == want, format!("Kmer::deref==Seq|{name}|wrong"), "{name} K={K}: deref(k-mer {:?}) == {:?} wrong", a.text(&x), a.text(&y));
                if want {
                    check!(ctx, hash_stream(view) == hash_stream(&sy) && hash_stream(&kx) == hash_stream(&sy), format!("hash|{name}|kmer-deref-vs-seq"), "{name} K={K}: deref(k-mer) hashes differently from the equal Seq");
                }
            }
            ctx.nontrivial(fp(&[b"kmu", name.as_bytes(), &x]));
        }
        let _ = S::NAME;
        cell!(ctx, "{name}/usize-pairings/K{K}");
    });
}

/// sequences holding documented ALTERNATIVE codes (reachable through from_raw / bitwise ops): they decode and
/// print as the symbol, so they equal their own displayed text
fn alt_code_contents<C: CI>(ctx: &mut Ctx) {
    let a = C::alpha();
    let name = C::NAME;
    let alts: Vec<u8> = a.syms.iter().flat_map(|s| s.alt_codes.iter().copied()).collect();
    if alts.is_empty() {
        return;
    }
    ctx.group(&format!("{name}/alternative-code-contents"), |ctx| {
        for r in 0..ctx.n(200, 3000, 3) {
            let n = 1 + ctx.rng.below(per_word(a.bits) + 4);
            let raw: Vec<u8> = (0..n).map(|i| if (i + r) % 2 == 0 { *ctx.rng.pick(&alts) } else { *ctx.rng.pick(&a.codes()) }).collect();
            let words: Vec<usize> = model::pack_words(a.bits, &raw).iter().map(|w| *w as usize).collect();
            let Some(s) = Seq::<C>::from_raw(n, &words) else { continue };
            ctx.eval();
            let text: String = raw.iter().map(|c| a.char_of_code(*c).unwrap() as char).collect();
            let shown = show::<C>(&s);
            check!(ctx, shown == text, format!("display|{name}|alternative-codes"), "{name}: a sequence holding alternative codes displays {shown:?}, the symbols are {text:?}");
            check!(ctx, s[..] == shown.as_str() && s[..] == text.as_str(), format!("SeqSlice==&str|{name}|own-display-alternative-codes"), "{name}: a sequence holding alternative codes {:?} does not equal its own displayed text {shown:?}", raw);
            check!(ctx, s == s.clone() && s[..] == s[..].to_owned(), format!("Seq==Seq|{name}|alternative-codes-clone"), "{name}: clone of a sequence with alternative codes not equal");
            ctx.nontrivial(fp(&[b"alt", name.as_bytes(), &raw]));
        }
        cell!(ctx, "{name}/alternative-code-contents");
    });
}

fn statics(ctx: &mut Ctx) {
    ctx.group("static-literals", |ctx| {
        macro_rules! lit {
            ($mac:ident, $C:ty, $t:literal) => {{
                let l: &'static SeqSlice<$C> = $mac!($t);
                let text: &str = $t;
                let text = text.replace('X', "-");
                let parsed = Seq::<$C>::try_from(text.as_str()).expect("literal text parses");
                ctx.eval();
                check!(ctx, l == parsed && parsed == l && *l == parsed[..] && l.len() == text.len(), concat!("literal==Seq|", stringify!($mac), "|wrong"), "{}!({:?}) != runtime parse", stringify!($mac), $t);
                check!(ctx, *l == text.as_str(), concat!("literal==&str|", stringify!($mac), "|wrong"), "{}!({:?}) != its text", stringify!($mac), $t);
                check!(ctx, hash_stream(l) == hash_stream(&parsed), concat!("hash|", stringify!($mac), "|literal-vs-parse"), "{}!({:?}) hashes differently from the runtime parse", stringify!($mac), $t);
                if text.len() > 2 {
                    check!(ctx, l[1..] == parsed[1..] && l[..text.len() - 1] != parsed[1..] || text.as_bytes()[..text.len() - 1] == text.as_bytes()[1..], concat!("literal-slice|", stringify!($mac), "|wrong"), "slices of {}!({:?}) compare wrongly", stringify!($mac), $t);
                }
                cell!(ctx, "{}/static/{}", stringify!($mac), len_class(<$C as Codec>::BITS, text.len()));
                ctx.nontrivial_s(&format!("lit/{}/{}", stringify!($mac), $t));
            }};
        }
        lit!(dna, Dna, "");
        lit!(dna, Dna, "A");
        lit!(dna, Dna, "T");
        lit!(dna, Dna, "ACGT");
        lit!(dna, Dna, "TTTTTTTTTTTTTTTTTTTTTTTTTTTTTTT");
        lit!(dna, Dna, "ACGTACGTACGTACGTACGTACGTACGTACGT");
        lit!(dna, Dna, "ACGTACGTACGTACGTACGTACGTACGTACGTA");
        lit!(dna, Dna, "GATTACAGATTACAGATTACAGATTACAGATTACAGATTACAGATTACAGATTACAGATTACAG");
        lit!(dna, Dna, "GATTACAGATTACAGATTACAGATTACAGATTACAGATTACAGATTACAGATTACAGATTACAGA");
        lit!(dna, Dna, "GATTACAGATTACAGATTACAGATTACAGATTACAGATTACAGATTACAGATTACAGATTACAGAC");
        lit!(dna, Dna, "CCCCCCCCCCCCCCCCCCCCCCCCCCCCCCCCCCCCCCCCCCCCCCCCCCCCCCCCCCCCCCCCCCCCCCCCCCCCCCCCCCCCCCCCCCCCCCCCCCCCCCCCCCCCCCCCCCCCCCCCCCCCCCCCCCCCCCCCCCCCCCCCCCCCCCCCCCCC");
        lit!(iupac, Iupac, "");
        lit!(iupac, Iupac, "N");
        lit!(iupac, Iupac, "-");
        lit!(iupac, Iupac, "ACGTRYSWKMBDHVN-");
        lit!(iupac, Iupac, "ACGTRYSWKMBDHVN");
        lit!(iupac, Iupac, "ACGTRYSWKMBDHVN-A");
        lit!(iupac, Iupac, "NNNNNNNNNNNNNNNNNNNNNNNNNNNNNNNNBDHV");
        lit!(iupac, Iupac, "ACGTRYSWKMBDHVN-ACGTRYSWKMBDHVN-ACGTRYSWKMBDHVN-ACGTRYSWKMBDHVN-V");
        // kmer! literals
        let k = kmer!("ACGTACGT");
        let s: Seq<Dna> = "ACGTACGT".try_into().unwrap();
        ctx.eval();
        check!(ctx, k == s && k == "ACGTACGT" && hash_stream(&k) == hash_stream(&s), "kmer!|dna|literal-vs-parse", "kmer!(\"ACGTACGT\") differs from the parsed sequence");
        let k64 = kmer!("ACGTACGTTTGACA", u64);
        let s: Seq<Dna> = "ACGTACGTTTGACA".try_into().unwrap();
        check!(ctx, k64 == s[..] && hash_stream(&k64) == hash_stream(&s), "kmer!|dna|u64-literal-vs-parse", "kmer!(.., u64) differs from the parsed sequence");
        let k128 = kmer!("ACGTACGTTTGACAACGTACGTTTGACAACGTACGTTTGACA", u128);
        let s: Seq<Dna> = "ACGTACGTTTGACAACGTACGTTTGACAACGTACGTTTGACA".try_into().unwrap();
        check!(ctx, k128 == s[..] && hash_stream(&k128) == hash_stream(&s), "kmer!|dna|u128-literal-vs-parse", "kmer!(.., u128) differs from the parsed sequence");
    });
}

fn main() {
    run_main("C02", |ctx| {
        ctx.first_use_race(3, |t| {
            let d: Seq<Dna> = "ACGTTGCAACGTACGTACGTACGTACGTACGTTTGAC".try_into().unwrap();
            let i: Seq<Iupac> = "ACGTRYSWKMBDHVN-ACGT".try_into().unwrap();
            let m: Seq<Amino> = "MAGICLIFEQRSTVWY*".try_into().unwrap();
            let k: Kmer<Dna, 8> = Kmer::try_from(&d[t..t + 8]).unwrap();
            let k2: Kmer<Iupac, 20, u128> = Kmer::try_from(&i[..]).unwrap();
            (
                (d[t..] == d[t..], d[t..t + 8] == d[8 + t..16 + t], d == d.clone(), d[..] == "ACGT", k == d[t..t + 8], k2 == i[..]),
                (hash_stream(&d[t..]), hash_stream(&k), hash_stream(&i), hash_stream(&m[t..]), hash_stream(&k2)),
                (default_hash(&d), default_hash(&m)),
            )
        });
        for_each_codec!(run, ctx);
        for_each_codec!(alt_code_contents, ctx);
        statics(ctx);
        if ctx.lite {
            for_each_k_small!(kmer_case, usize, ctx);
            for_each_k_small!(kmer_case, u128, ctx);
            for_each_k_small128!(kmer_case, ctx);
            for_each_k_small!(kmer_usize, usize, ctx);
        } else {
            for_each_k64!(kmer_case, usize, ctx);
            for_each_k64!(kmer_case, u64, ctx);
            for_each_k128!(kmer_case, ctx);
            for_each_k64!(kmer_usize, usize, ctx);
        }
        ctx.note("rule", json!("per codec: base contents at every length class x variants {equal, one symbol different at first/last/word-boundary/random, proper prefix, proper suffix, extended, empty} x all 14 Seq/&Seq/SeqSlice/&SeqSlice pairings with == and != in both directions, the two operands at independent bit offsets (x swept over ALL achievable offsets with y rotating, and vice versa); windows of the SAME parent buffer (equal, shifted-by-one, and same-start prefixes incl. the empty window); sequences holding alternative codes vs their own displayed text; SeqSlice==&str incl. bad bytes and other lengths; recorded hasher byte stream + DefaultHasher equal for equal values across representations; HashMap<Seq,_> lookups by offset slices with RandomState and with an 8-bucket colliding hasher; every (codec,K,storage): Kmer==Kmer/SeqSlice/&SeqSlice/SeqArray/&SeqArray (+Seq, &str, Deref for usize) and k-mer hash stream == slice hash stream; static dna!/iupac!/kmer! literals. Distinct = (codec, x, y, pad1, pad2); non-trivial = all (each evaluates >= 14 comparisons against the model)."));
        ctx.note("assumptions", json!(["'identical data' is judged on the concatenated byte stream fed to the hasher; segmentation into write calls is not compared", "unequal values are not required to hash differently"]));
    });
}
