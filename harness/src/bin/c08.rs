//! C08 — k-mer iteration and construction reproduce the sequence's windows exactly.
//! Oracle: windows of the model; construction succeeds iff the length is K (and the text valid).

use bio_seq::prelude::*;
use bsv::*;
use serde_json::json;
use std::str::FromStr;

/// iteration (usize-backed iterator) for one (codec, K)
fn iter_case<C: CI, const K: usize, S: KS>(ctx: &mut Ctx) {
    let a = C::alpha();
    let name = C::NAME;
    if ctx.lite && !ctx.mine_group(K) {
        return;
    }
    let pw = per_word(a.bits);
    let noff = n_offsets(a.bits);
    ctx.group(&format!("{name}/kmers-iter/K{K}"), |ctx| {
        let mut ns = vec![0usize, K - 1, K, K + 1, K + 7, 2 * K + 3, 3 * pw + 1];
        if ctx.lite {
            ns = vec![K - 1, K + 2];
        }
        ns.sort_unstable();
        ns.dedup();
        for (ni, n) in ns.into_iter().enumerate() {
            let pads: Vec<usize> = if ctx.lite { vec![(K + ctx.shard) % noff] }
                else if ctx.tier == Tier::Thorough { (0..noff).collect() } else { (0..noff).filter(|o| (o + ni + K) % 5 == 0 || *o == 0).collect() };
            for pad in pads {
                if ctx.over() {
                    break;
                }
                let codes = rand_codes(&mut ctx.rng, a, n);
                let p = Padded::<C>::new(&mut ctx.rng, pad, &codes, 2);
                let s = p.slice();
                let (head, _) = s.verif_layout();
                let expect = if n >= K { n - K + 1 } else { 0 };
                ctx.eval();
                let what = format!("{name} K={K} n={n} pad={pad}");
                // drain with a step bound; a panic here (e.g. n < K) is a violation
                let r = observe(|| {
                    let mut it = s.kmers::<K>();
                    let mut v = Vec::new();
                    for _ in 0..expect + 5 {
                        match it.next() {
                            Some(k) => v.push(k),
                            None => break,
                        }
                    }
                    let after = it.next().is_none();
                    (v, after)
                });
                let (v, fused) = match r {
                    Ok(x) => x,
                    Err(pm) => {
                        check!(ctx, false, format!("kmers|{name}|panics|{}", if n < K { "n<K" } else { "n>=K" }), "{what}: kmers::<{K}>() panicked: {pm}");
                        continue;
                    }
                };
                check!(ctx, v.len() == expect && fused, format!("kmers|{name}|count"), "{what}: yields {} k-mers (then None: {fused}), expected {expect}", v.len());
                let wins: Vec<&SeqSlice<C>> = s.windows(K).collect();
                check!(ctx, wins.len() == expect, format!("windows|{name}|count"), "{what}: windows({K}) yields {}", wins.len());
                for (i, k) in v.iter().enumerate().take(expect) {
                    let want = &codes[i..i + K];
                    let t = a.text(want);
                    let ok_int = k.bs as u128 == model::pack_u128(a.bits, want);
                    let shown = observe(|| k.to_string());
                    let ok = shown.as_deref() == Ok(t.as_str()) && ok_int;
                    check!(ctx, ok, format!("kmers|{name}|content"), "{what}: k-mer {i} displays {:?} (integer {:#x}), window is {t:?} (integer {:#x}); window ends at bit {}", shown, k.bs, model::pack_u128(a.bits, want), (head + (i + K) * a.bits as usize) % 64);
                    if !ok {
                        break;
                    }
                    if i < wins.len() {
                        check!(ctx, *k == wins[i] && *k == *wins[i] && *k == &s[i..i + K], format!("kmers|{name}|equals-window"), "{what}: k-mer {i} != windows({K}) item {i}");
                    }
                    if i % 7 == 0 {
                        let view: Vec<u8> = k.iter().map(|x| x.to_bits()).collect();
                        let back: Seq<C> = Seq::from(*k);
                        check!(ctx, view == want && codes_of::<C>(&back) == want && k.len() == K, format!("kmers|{name}|deref-or-into-seq"), "{what}: k-mer {i} derefs to {:?}, converts to {:?}", view, show::<C>(&back));
                    }
                }
                if n == K + 7 && (pad % 8 == 0 || ctx.tier == Tier::Thorough) && !ctx.lite {
                    let wantk: Vec<u128> = codes.windows(K).map(|w| model::pack_u128(a.bits, w)).collect();
                    for (c, d) in adaptor_laws(&|| s.kmers::<K>(), &|k: Kmer<C, K>| k.bs as u128, &wantk) {
                        check!(ctx, false, format!("kmers.{c}|{name}"), "{what}: kmers::<{K}>(): {d}");
                    }
                }
                let nc = if n == 0 { "0" } else if n < K { "n<K" } else if n == K { "n=K" } else if n == K + 1 { "n=K+1" } else { "n>K+1" };
                ctx.cell_k(fp(&[name.as_bytes(), &[K as u8, head as u8], nc.as_bytes()]), || format!("{name}/iter/K{K}/{nc}/head{head}"));
                ctx.nontrivial(fp(&[b"it", name.as_bytes(), &[K as u8, pad as u8], &codes]));
            }
        }
        let _ = S::NAME;
        ctx.sample(|| json!({"codec": name, "K": K, "lengths": "0, K-1, K, K+1, K+7, 2K+3, 3 words + 1", "compared_with": "windows(K), model windows, packed integers"}));
    });
}

/// construction for one (codec, K, storage)
fn cons_case<C: CI, const K: usize, S: KS>(ctx: &mut Ctx) {
    let a = C::alpha();
    let name = C::NAME;
    if ctx.lite && !ctx.mine_group(K + 1) {
        return;
    }
    let noff = n_offsets(a.bits);
    ctx.group(&format!("{name}/construct/K{K}/{}", S::NAME), |ctx| {
        for r in 0..ctx.n(3, 20, 1) {
            if ctx.over() {
                break;
            }
            // (n, None) = ordinary; (K, Some(pad)) = exact-fit: the window is the tail of an allocation without spare
            // words and starts at symbol `pad` (0, one or two whole words in, or unaligned), first round only
            let w = exact_fit_cases(a.bits)[0].0;
            let mut plan: Vec<(usize, Option<usize>)> = vec![(K, None), (K - 1, None), (K + 1, None), (0, None), (2 * K, None)];
            if r == 0 {
                let ex = [(K, Some(0)), (K, Some(w)), (K, Some(2 * w)), (K, Some(1)), (K + 1, Some(w))];
                if ctx.lite { plan.splice(0..0, ex); } else { plan.extend(ex); }
            }
            for (n, exact_pad) in plan {
                let _fit = exact_pad.map(|_| exact_fit_mode());
                let codes = rand_codes(&mut ctx.rng, a, n);
                let pad = exact_pad.unwrap_or_else(|| ctx.rng.below(noff));
                let p = Padded::<C>::new(&mut ctx.rng, pad, &codes, 2);
                ctx.eval();
                let what = format!("{name} K={K} {} from slice of {n} symbols at pad {pad}", S::NAME);
                match observe(|| Kmer::<C, K, S>::try_from(p.slice())) {
                    Ok(Ok(k)) => {
                        check!(ctx, n == K, format!("Kmer::try_from(&slice)|{name}|{}|accepts-wrong-length", S::NAME), "{what}: Ok({:?}) — silently truncated or padded", observe(|| k.to_string()));
                        if n == K {
                            let t = a.text(&codes);
                            check!(ctx, observe(|| k.to_string()).as_deref() == Ok(t.as_str()) && k.bs.to_u128() == model::pack_u128(a.bits, &codes) && k.len() == K && !k.is_empty(),
                                format!("Kmer::try_from(&slice)|{name}|{}|content", S::NAME), "{what}: k-mer displays {:?} integer {:#x}, slice is {t:?}", observe(|| k.to_string()), k.bs.to_u128());
                            check!(ctx, k == p.slice(), format!("Kmer::try_from(&slice)|{name}|{}|not-equal-to-source", S::NAME), "{what}: k-mer != its source slice");
                            let u = observe(|| Kmer::<C, K, S>::unsafe_from_seqslice(p.slice()));
                            check!(ctx, u.as_ref().map(|u| u.bs.to_u128()) == Ok(k.bs.to_u128()), format!("Kmer::unsafe_from_seqslice|{name}|{}|content", S::NAME), "{what}: unsafe_from_seqslice differs");
                        }
                    }
                    Ok(Err(_)) => check!(ctx, n != K, format!("Kmer::try_from(&slice)|{name}|{}|refuses-right-length", S::NAME), "{what}: Err for a slice of exactly K symbols"),
                    Err(pm) => check!(ctx, false, format!("Kmer::try_from(&slice)|{name}|{}|panics", S::NAME), "{what}: panicked: {pm}"),
                }
                cell!(ctx, "{name}/construct/{}{}", if n == K { "n=K" } else if n == 0 { "n=0" } else if n < K { "n<K" } else { "n>K" }, if exact_pad.is_some() { "/exact-fit" } else { "" });
            }
            // from_str
            let codes = rand_codes(&mut ctx.rng, a, K);
            let t = if a.name == "degen" { String::from_utf8(codes.iter().map(|c| if *c == 1 { *ctx.rng.pick(b"SCG") } else { *ctx.rng.pick(b"WAT") }).collect()).unwrap() } else { a.text(&codes) };
            ctx.eval();
            match observe(|| Kmer::<C, K, S>::from_str(&t)) {
                Ok(Ok(k)) => check!(ctx, k.bs.to_u128() == model::pack_u128(a.bits, &codes), format!("Kmer::from_str|{name}|{}|content", S::NAME), "{name} K={K}: from_str({t:?}) has integer {:#x}", k.bs.to_u128()),
                other => check!(ctx, false, format!("Kmer::from_str|{name}|{}|rejects-valid", S::NAME), "{name} K={K}: from_str({t:?}) = {:?}", other.map(|r| r.map(|k| k.bs.to_u128()))),
            }
            let chars = a.canon_chars();
            let mut bads: Vec<String> = vec![
                t[..K - 1].to_string(),
                format!("{t}{}", chars[0] as char),
                String::new(),
            ];
            let mut b = t.clone().into_bytes();
            let i = (r + K) % K;
            b[i] = *ctx.rng.pick(&a.bad_bytes().into_iter().filter(|x| *x < 0x80).collect::<Vec<u8>>());
            bads.push(String::from_utf8(b).unwrap());
            // multi-byte characters: char count K but byte length > K, and byte length K but fewer chars
            let mut mb: String = t.chars().take(K - 1).collect();
            mb.push('\u{e9}');
            bads.push(mb);
            if K >= 2 {
                let mut mb2: String = t.chars().take(K - 2).collect();
                mb2.push('\u{e9}');
                bads.push(mb2);
            }
            for bad in bads {
                ctx.eval();
                match observe(|| Kmer::<C, K, S>::from_str(&bad)) {
                    Ok(Err(_)) => {}
                    Ok(Ok(k)) => check!(ctx, false, format!("Kmer::from_str|{name}|{}|accepts-invalid", S::NAME), "{name} K={K}: from_str({bad:?}) = Ok(integer {:#x})", k.bs.to_u128()),
                    Err(pm) => check!(ctx, false, format!("Kmer::from_str|{name}|{}|panics", S::NAME), "{name} K={K}: from_str({bad:?}) panicked: {pm}"),
                }
            }
            ctx.nontrivial(fp(&[b"cons", name.as_bytes(), S::NAME.as_bytes(), &[K as u8], &codes]));
        }
        cell!(ctx, "{name}/K{K}/{}", S::NAME);
    });
}

/// k-mers iterated from sequences of 2^10 .. 2^16 symbols (65 .. 2049 machine words), structured contents: every
/// k-mer compared with the model window (external iteration), internal iteration (count / last / fold), nth at
/// block seams
fn iter_huge<C: CI, const K: usize, S: KS>(ctx: &mut Ctx) {
    let a = C::alpha();
    let name = C::NAME;
    if ctx.lite {
        return;
    }
    let noff = n_offsets(a.bits);
    ctx.group(&format!("{name}/kmers-iter-huge/K{K}"), |ctx| {
        for (k, n) in huge_lengths(ctx, a.bits).into_iter().enumerate().filter(|(k, _)| (k + K) % 3 == 0) {
            let codes = structured_codes(&mut ctx.rng, a, n, k);
            let pad = (k * 3 + K) % noff;
            let p = Padded::<C>::new(&mut ctx.rng, pad, &codes, 2);
            let s = p.slice();
            let expect = n - K + 1;
            ctx.eval();
            let what = format!("{name} K={K} n={n} pad={pad} (huge)");
            let r = observe(|| {
                let mut it = s.kmers::<K>();
                let mut first_bad: Option<usize> = None;
                let mut cnt = 0usize;
                for i in 0..expect + 5 {
                    match it.next() {
                        Some(km) => {
                            if first_bad.is_none() && (i + K > n || km.bs as u128 != model::pack_u128(a.bits, &codes[i..i + K])) {
                                first_bad = Some(i);
                            }
                            cnt += 1;
                        }
                        None => break,
                    }
                }
                let folded = s.kmers::<K>().fold(0u128, |acc, km| acc.wrapping_mul(31).wrapping_add(km.bs as u128));
                (cnt, first_bad, it.next().is_none(), s.kmers::<K>().count(), s.kmers::<K>().last().map(|km| km.bs as u128), folded)
            });
            let want_fold = codes.windows(K).fold(0u128, |acc, w| acc.wrapping_mul(31).wrapping_add(model::pack_u128(a.bits, w)));
            check!(ctx, r == Ok((expect, None, true, expect, Some(model::pack_u128(a.bits, &codes[n - K..])), want_fold)), format!("kmers|{name}|huge"), "{what}: (count by next(), first wrong k-mer, fused, count(), last(), fold) = {:x?}; expected {expect} k-mers equal to the model windows", r);
            for st in [1023usize, 1024, 4095, 4096, 8191, 8192, 16384, 32768, expect - 1] {
                if st >= expect {
                    continue;
                }
                let got = observe(|| s.kmers::<K>().nth(st).map(|km| km.bs as u128));
                check!(ctx, got == Ok(Some(model::pack_u128(a.bits, &codes[st..st + K]))), format!("kmers.nth|{name}|huge"), "{what}: nth({st}) = {:x?}", got);
            }
            cell!(ctx, "{name}/kmers-huge/2^{}", usize::BITS - n.leading_zeros());
            ctx.nontrivial(fp(&[b"kh", name.as_bytes(), &[K as u8, k as u8], &(n as u64).to_le_bytes()]));
        }
    });
}

/// TryFrom<Seq> exists for usize storage only
fn cons_owned<C: CI, const K: usize, S: KS>(ctx: &mut Ctx) {
    let a = C::alpha();
    let name = C::NAME;
    if ctx.lite && !ctx.mine_group(K + 2) {
        return;
    }
    ctx.group(&format!("{name}/construct-from-owned/K{K}"), |ctx| {
        for n in [K, K - 1, K + 1] {
            let codes = rand_codes(&mut ctx.rng, a, n);
            ctx.eval();
            match observe(|| Kmer::<C, K>::try_from(mk::<C>(&codes))) {
                Ok(Ok(k)) => check!(ctx, n == K && k.bs as u128 == model::pack_u128(a.bits, &codes), format!("Kmer::try_from(Seq)|{name}|wrong"), "{name} K={K}: try_from(Seq of {n}) = Ok({:#x})", k.bs),
                Ok(Err(_)) => check!(ctx, n != K, format!("Kmer::try_from(Seq)|{name}|refuses-right-length"), "{name} K={K}: Err for K symbols"),
                Err(pm) => check!(ctx, false, format!("Kmer::try_from(Seq)|{name}|panics"), "{name} K={K}: panicked {pm}"),
            }
        }
        // a k-mer equals its own text and no text of another length (prefix, extension, empty)
        let codes = rand_codes(&mut ctx.rng, a, K);
        let t = a.text(&codes);
        if t.is_ascii() {
            ctx.eval();
            let k = Kmer::<C, K>::try_from(&mk::<C>(&codes)[..]).unwrap();
            let longer = format!("{t}{}", &t[..1]);
            let r = observe(|| (k == t.as_str(), k == &t[..K - 1], k == longer.as_str(), k == "", k != t.as_str()));
            check!(ctx, r == Ok((true, false, false, false, false)), format!("Kmer==&str|{name}|other-length"), "{name} K={K}: k-mer {t:?} == its text / its prefix / its extension / \"\" / != its text: {:?}", r);
        }
        let _ = S::NAME;
        cell!(ctx, "{name}/from-owned/K{K}");
    });
}

/// k-mers whose window ends exactly at the end of the backing allocation (exact-capacity owned
/// sequences whose bit length is a multiple of 64, and static literals): a read of "the next word"
/// is out of bounds here even when the value comes out right, so this group is mainly for Miri / ASan
fn alloc_end<C: CI, const K: usize, S: KS>(ctx: &mut Ctx) {
    let a = C::alpha();
    let name = C::NAME;
    let pw = per_word(a.bits);
    if 64 % a.bits as usize != 0 {
        return; // bit lengths of whole words only exist for widths dividing 64
    }
    ctx.group(&format!("{name}/kmers-at-allocation-end/K{K}"), |ctx| {
        for words in [1usize, 2] {
            let n = words * pw;
            if K > n {
                continue;
            }
            let codes = rand_codes(&mut ctx.rng, a, n);
            // three ways to an allocation without spare words
            let parsed = mk::<C>(&codes);
            let exact: Seq<C> = parsed[..].to_owned();
            let mut cap = Seq::<C>::with_capacity(n);
            for c in &codes {
                cap.push(C::try_from_bits(*c).unwrap());
            }
            for (how, s) in [("to_owned", &exact), ("with_capacity", &cap), ("parsed", &parsed)] {
                ctx.eval();
                let spare = s.verif_capacity_bits() - n * a.bits as usize;
                let r = observe(|| {
                    let last = s.kmers::<K>().last().map(|k| k.bs as u128);
                    let tf = Kmer::<C, K, S>::try_from(&s[n - K..]).map(|k| k.bs.to_u128()).ok();
                    let eq = Kmer::<C, K, S>::try_from(&s[n - K..]).map(|k| k == s[n - K..]).ok();
                    (last, tf, eq)
                });
                let want = model::pack_u128(a.bits, &codes[n - K..]);
                check!(ctx, r == Ok((Some(want), Some(want), Some(true))), format!("kmers|{name}|allocation-end"), "{name} K={K} n={n} [{how}, {spare} spare bits]: last k-mer {:?} want {want:#x}", r);
                cell!(ctx, "{name}/alloc-end/{how}/spare={}", if spare == 0 { "0" } else { ">0" });
                ctx.nontrivial(fp(&[b"ae", name.as_bytes(), &[K as u8, words as u8], how.as_bytes()]));
            }
        }
    });
}

fn literals(ctx: &mut Ctx) {
    ctx.group("kmer-literals", |ctx| {
        macro_rules! kl {
            ($t:literal) => {{
                ctx.eval();
                let k = kmer!($t);
                let s: Seq<Dna> = $t.try_into().unwrap();
                check!(ctx, k.to_string() == $t && k == s && k.len() == $t.len(), "kmer!|dna|usize-literal", "kmer!({:?}) = {:?}", $t, k.to_string());
                let k = kmer!($t, u64);
                check!(ctx, k.to_string() == $t && k == s[..], "kmer!|dna|u64-literal", "kmer!({:?}, u64) = {:?}", $t, k.to_string());
                let k = kmer!($t, u128);
                check!(ctx, k.to_string() == $t && k == s[..], "kmer!|dna|u128-literal", "kmer!({:?}, u128) = {:?}", $t, k.to_string());
                ctx.nontrivial_s($t);
            }};
        }
        kl!("A");
        kl!("T");
        kl!("ACGT");
        kl!("TTGACCAGTAGCATCG");
        kl!("TTGACCAGTAGCATCGATCGATTAGACGTAC");
        kl!("TTGACCAGTAGCATCGATCGATTAGACGTACG");
        cell!(ctx, "dna/kmer-literals");
        // static arrays end with their allocation: every k-mer length over a 32- and a 64-symbol literal
        let l32: &'static SeqSlice<Dna> = dna!("TTGACCAGTAGCATCGATCGATTAGACGTACG");
        let l64: &'static SeqSlice<Dna> = dna!("TTGACCAGTAGCATCGATCGATTAGACGTACGACGTACGTTTGACCAGTAGCATCGATCGATTA");
        macro_rules! lastk {
            ($l:expr, $k:literal) => {{
                ctx.eval();
                let t = $l.to_string();
                let r = observe(|| $l.kmers::<$k>().last().map(|k| k.to_string()));
                check!(ctx, r.as_ref().ok().and_then(|x| x.as_deref()) == Some(&t[t.len() - $k..]), "kmers|dna|allocation-end-static".to_string(), "last {}-mer of a {}-symbol literal: {:?}", $k, t.len(), r);
            }};
        }
        lastk!(l32, 1); lastk!(l32, 3); lastk!(l32, 8); lastk!(l32, 31); lastk!(l32, 32);
        lastk!(l64, 1); lastk!(l64, 5); lastk!(l64, 16); lastk!(l64, 31); lastk!(l64, 32);
    });
}

fn main() {
    run_main("C08", |ctx| {
        ctx.first_use_race(3, |t| {
            let d: Seq<Dna> = "ACGTTGCAACGTACGTACGTACGTACGTACGTTTGACACGTTGCAACGTACGTACGTACGTACGTACGTTTGAC".try_into().unwrap();
            let i: Seq<Iupac> = "ACGTRYSWKMBDHVN-ACGTRYSWKMBDHVN-ACGT".try_into().unwrap();
            let m: Seq<Amino> = "MAGICLIFEQRSTVWY*".try_into().unwrap();
            (
                d[t..].kmers::<8>().map(|k| k.to_string()).collect::<Vec<String>>(),
                d.kmers::<32>().map(|k| usize::from(&k)).collect::<Vec<usize>>(),
                i[t..].kmers::<5>().map(|k| k.to_string()).collect::<Vec<String>>(),
                m.kmers::<3>().map(|k| k.to_string()).collect::<Vec<String>>(),
                Kmer::<Dna, 40, u128>::try_from(&d[t..t + 40]).map(|k| k.to_string()).ok(),
                Kmer::<Iupac, 20, u128>::try_from(&i[t..t + 20]).map(|k| k.to_string()).ok(),
                Kmer::<Dna, 8>::from_str("ACGTACGT").map(|k| k.to_string()).ok(),
                Kmer::<Dna, 8>::try_from(&d[..7]).is_err(),
            )
        });
        // first, uncapped even under Miri: the allocation-end reads
        for_each_k_small!(alloc_end, usize, ctx);
        if ctx.lite {
            for_each_k_small!(iter_case, usize, ctx);
            for_each_k_small!(cons_case, usize, ctx);
            for_each_k_small!(cons_case, u128, ctx);
            for_each_k_small128!(cons_case, ctx);
            for_each_k_small!(cons_owned, usize, ctx);
        } else {
            for_each_k64!(iter_case, usize, ctx);
            for_each_k64!(cons_case, usize, ctx);
            for_each_k64!(cons_case, u64, ctx);
            for_each_k128!(cons_case, ctx);
            for_each_k64!(cons_owned, usize, ctx);
        }
        for_each_k_small!(iter_huge, usize, ctx);
        literals(ctx);
        ctx.note("rule", json!("every (codec,K) that fits in 64 bits: kmers::<K>() over slices of length 0, K-1, K, K+1, K+7, 2K+3 and 3 words+1 at bit offsets (quick: every 5th rotating + 0; thorough: all), drained with a step bound, each k-mer compared with the model window by display AND packed integer, with windows(K) item i and with &slice[i..i+K]; Deref / Seq::from every 7th. nth/skip/step_by/count/last/size_hint on the k-mer iterator; k-mers ending exactly at the end of exact-capacity allocations and static literals (for Miri/ASan). Every (codec,K,storage in usize/u64/u128): try_from(&slice) for lengths K, K-1, K+1, 0, 2K (Ok iff K), unsafe_from_seqslice, from_str for valid text, K-1, K+1, empty, one bad byte, multi-byte characters; TryFrom<Seq> (usize). Distinct = (codec,K,pad,content)."));
    });
}
