//! C06 — editing an owned sequence behaves like editing a list of symbols.
//! History + executable model: state (Seq<C>, Vec<u8>); after EVERY step length, symbols, display,
//! equality with a fresh parse and the raw word image are compared; clones / copied-out slices /
//! strings taken earlier are re-verified at the end of the history.

use bio_seq::prelude::*;
use bsv::*;
use serde_json::json;
use std::ops::Bound;

#[derive(Clone, Debug)]
enum Pos {
    Zero,
    Mid,
    Len,
    At(usize),
}
#[derive(Clone, Debug)]
enum Op {
    Push(u8),
    ExtInherent(Vec<u8>),
    ExtTrait(Vec<u8>),
    Append(usize),
    Prepend(usize),
    Insert(Pos, usize),
    /// remove model range [a,b) written in range form `form`
    Remove(u8, Pos, Pos),
    Truncate(Pos, usize),
    Clear,
}

struct Args<C: CI> {
    items: Vec<(Padded<C>, Vec<u8>)>,
}
impl<C: CI> Args<C> {
    fn get(&self, i: usize) -> (&SeqSlice<C>, &[u8]) {
        let (p, c) = &self.items[i % self.items.len()];
        (p.slice(), c)
    }
}

fn pos(p: &Pos, n: usize) -> usize {
    match p {
        Pos::Zero => 0,
        Pos::Mid => n / 2,
        Pos::Len => n,
        Pos::At(i) => (*i).min(n),
    }
}

const NFORMS: u8 = 10;
/// can range form f express [a,b) on a sequence of length n?
fn rform_ok(f: u8, a: usize, b: usize, n: usize) -> bool {
    match f {
        0 => true,                 // a..b
        1 => b > a,                // a..=b-1
        2 => a == 0,               // ..b
        3 => a == 0 && b > 0,      // ..=b-1
        4 => b == n,               // a..
        5 => a == 0 && b == n,     // ..
        6 => a > 0 && b > a,       // (Excluded(a-1), Included(b-1))
        7 => a > 0,                // (Excluded(a-1), Excluded(b))
        8 => b == n,               // (Included(a), Unbounded)
        _ => a == 0 && b > 0,      // (Unbounded, Included(b-1))
    }
}
fn do_remove<C: CI>(s: &mut Seq<C>, f: u8, a: usize, b: usize) {
    match f {
        0 => s.remove(a..b),
        1 => s.remove(a..=b - 1),
        2 => s.remove(..b),
        3 => s.remove(..=b - 1),
        4 => s.remove(a..),
        5 => s.remove(..),
        6 => s.remove((Bound::Excluded(a - 1), Bound::Included(b - 1))),
        7 => s.remove((Bound::Excluded(a - 1), Bound::Excluded(b))),
        8 => s.remove((Bound::Included(a), Bound::Unbounded)),
        _ => s.remove((Bound::Unbounded, Bound::Included(b - 1))),
    }
}

/// apply to both; returns a description, or None when the op is not applicable in this state
fn apply<C: CI>(seq: &mut Seq<C>, m: &mut Vec<u8>, op: &Op, args: &Args<C>) -> Option<String> {
    let n = m.len();
    let a = C::alpha();
    let sym = |c: u8| C::try_from_bits(c).expect("model code");
    Some(match op {
        Op::Push(c) => {
            seq.push(sym(*c));
            m.push(*c);
            format!("push({})", a.text(&[*c]))
        }
        Op::ExtInherent(v) => {
            seq.extend(v.iter().map(|c| sym(*c)));
            m.extend(v);
            format!("extend({})", a.text(v))
        }
        Op::ExtTrait(v) => {
            // the Extend trait, fed through iterators of varying size-hint shape (chosen by content)
            let syms: Vec<C> = v.iter().map(|c| sym(*c)).collect();
            let pick = v.iter().map(|c| *c as usize).sum::<usize>() % 7;
            let mut k = 0usize;
            let mut used = "exact";
            iterator_shapes(&syms, |shape, it| {
                if k == pick {
                    Extend::extend(seq, it);
                    used = shape;
                }
                k += 1;
            });
            if k <= pick {
                Extend::extend(seq, syms.iter().copied());
            }
            m.extend(v);
            format!("Extend::extend({} via {used})", a.text(v))
        }
        Op::Append(i) => {
            let (s, c) = args.get(*i);
            seq.append(s);
            m.extend(c);
            format!("append({}@head{})", a.text(c), s.verif_layout().0)
        }
        Op::Prepend(i) => {
            let (s, c) = args.get(*i);
            seq.prepend(s);
            let mut v = c.to_vec();
            v.extend(m.iter());
            *m = v;
            format!("prepend({}@head{})", a.text(c), s.verif_layout().0)
        }
        Op::Insert(p, i) => {
            let at = pos(p, n);
            let (s, c) = args.get(*i);
            seq.insert(at, s);
            let tail = m.split_off(at);
            m.extend(c);
            m.extend(tail);
            format!("insert({at}, {}@head{})", a.text(c), s.verif_layout().0)
        }
        Op::Remove(f, pa, pb) => {
            let (mut x, mut y) = (pos(pa, n), pos(pb, n));
            if x > y {
                std::mem::swap(&mut x, &mut y);
            }
            if !rform_ok(*f, x, y, n) {
                return None;
            }
            do_remove(seq, *f, x, y);
            m.drain(x..y);
            format!("remove(form{f} [{x},{y}))")
        }
        Op::Truncate(p, extra) => {
            let t = pos(p, n).saturating_add(*extra);
            seq.truncate(t);
            m.truncate(t);
            format!("truncate({t})")
        }
        Op::Clear => {
            seq.clear();
            m.clear();
            "clear()".to_string()
        }
    })
}

fn verify<C: CI>(ctx: &mut Ctx, seq: &Seq<C>, m: &[u8], hist: &dyn Fn() -> String, full: bool) -> bool {
    let a = C::alpha();
    let name = C::NAME;
    let before = ctx.n_viols();
    check!(ctx, seq.len() == m.len(), format!("edit|{name}|length"), "{}: len {} want {}", hist(), seq.len(), m.len());
    check!(ctx, seq.is_empty() == m.is_empty(), format!("edit|{name}|is_empty"), "{}: is_empty wrong", hist());
    let got = codes_of::<C>(seq);
    check!(ctx, got == m, format!("edit|{name}|symbols"), "{}: symbols {:?} want {:?}", hist(), a.text_lossy(&got), a.text(m));
    let nb = m.len() * a.bits as usize;
    check!(ctx, seq.verif_layout().1 == nb, format!("edit|{name}|bit-length"), "{}: bit length {} want {nb}", hist(), seq.verif_layout().1);
    check!(ctx, model::live_bits(seq.into_raw(), nb) == model::pack_words(a.bits, m), format!("edit|{name}|raw-image"), "{}: raw image differs from the packed model", hist());
    if full {
        check!(ctx, show::<C>(seq) == a.text(m), format!("edit|{name}|display"), "{}: displays {:?} want {:?}", hist(), show::<C>(seq), a.text(m));
        let fresh = mk::<C>(m);
        check!(ctx, *seq == fresh && fresh == *seq, format!("edit|{name}|eq-fresh-parse"), "{}: not equal to a fresh parse of {:?}", hist(), a.text(m));
        check!(ctx, hash_stream(seq) == hash_stream(&fresh), format!("edit|{name}|hash-fresh-parse"), "{}: hashes differently from a fresh parse", hist());
    }
    ctx.n_viols() == before
}

fn make_args<C: CI>(ctx: &mut Ctx) -> Args<C> {
    let a = C::alpha();
    let pw = per_word(a.bits);
    let c1 = rand_codes(&mut ctx.rng, a, 1);
    let c3 = rand_codes(&mut ctx.rng, a, 3);
    Args {
        items: vec![
            (Padded::<C>::new(&mut ctx.rng, 1, &[], 2), vec![]),                 // empty window at symbol 1
            (Padded::<C>::new(&mut ctx.rng, 1, &c1, 2), c1.clone()),             // one symbol at offset 1
            (Padded::<C>::new(&mut ctx.rng, pw - 1, &c3, 2), c3.clone()),        // three symbols straddling a word
        ],
    }
}

fn small_ops(a: &model::Alphabet) -> Vec<Op> {
    let codes = a.codes();
    let (s0, s1) = (codes[1 % codes.len()], codes[codes.len() - 1]);
    let mut v = vec![
        Op::Push(s0),
        Op::Push(s1),
        Op::ExtInherent(vec![s0, s1, s0]),
        Op::ExtTrait(vec![s1]),
        Op::Clear,
        Op::Truncate(Pos::Zero, 0),
        Op::Truncate(Pos::Mid, 0),
        Op::Truncate(Pos::Len, 0),
        Op::Truncate(Pos::Len, 3),
        Op::Truncate(Pos::Zero, usize::MAX / 2 + 1), // far beyond the length: a no-op on a list
        Op::Truncate(Pos::Zero, usize::MAX / 8 + 2),
    ];
    for i in 0..3 {
        v.push(Op::Append(i));
        v.push(Op::Prepend(i));
        for p in [Pos::Zero, Pos::Mid, Pos::Len] {
            v.push(Op::Insert(p, i));
        }
    }
    for (f, pa, pb) in [(0, Pos::Zero, Pos::Mid), (0, Pos::Mid, Pos::Len), (0, Pos::Mid, Pos::Mid), (1, Pos::Mid, Pos::Len), (1, Pos::Zero, Pos::Mid),
                        (2, Pos::Zero, Pos::Mid), (3, Pos::Zero, Pos::Mid), (4, Pos::Mid, Pos::Len), (5, Pos::Zero, Pos::Len),
                        (6, Pos::Mid, Pos::Len), (7, Pos::Mid, Pos::Len), (8, Pos::Mid, Pos::Len), (9, Pos::Zero, Pos::Mid), (0, Pos::At(1), Pos::At(2))] {
        v.push(Op::Remove(f, pa, pb));
    }
    v
}

fn exhaustive<C: CI>(ctx: &mut Ctx, depth: usize) {
    let a = C::alpha();
    let name = C::NAME;
    let pw = per_word(a.bits);
    ctx.group(&format!("{name}/exhaustive-depth{depth}"), |ctx| {
        let args = make_args::<C>(ctx);
        let ops = small_ops(a);
        let starts: Vec<usize> = if ctx.lite { vec![0, pw - 1] } else { vec![0, 1, pw - 1, pw, pw + 1] };
        let nops = ops.len();
        let total = nops.pow(depth as u32);
        let mut histories = 0u64;
        for (si, &st) in starts.iter().enumerate() {
            let start_codes = cover_codes(&mut ctx.rng, a, st);
            for h in 0..total {
                if ctx.lite && (!ctx.mine(h / 7 + si) || h % 7 != ctx.shard % 7) {
                    continue;
                }
                if ctx.over() {
                    break;
                }
                let mut seq = mk::<C>(&start_codes);
                let mut m = start_codes.clone();
                let mut descr: Vec<String> = Vec::new();
                let mut idx = h;
                let mut ok = true;
                for step in 0..depth {
                    let op = &ops[idx % nops];
                    idx /= nops;
                    let before = a.text(&m);
                    let r = observe(|| {
                        let d = apply::<C>(&mut seq, &mut m, op, &args);
                        (d, seq, m)
                    });
                    match r {
                        Ok((d, s2, m2)) => {
                            seq = s2;
                            m = m2;
                            match d {
                                Some(d) => descr.push(d),
                                None => { ok = false; break; } // op not applicable here: history not counted
                            }
                        }
                        Err(pm) => {
                            check!(ctx, false, format!("edit|{name}|panics"), "{name} start {:?} history {:?} then {:?} on {:?}: panicked: {pm}", a.text(&start_codes), descr, op, before);
                            ok = false;
                            // state was moved into the closure; rebuild to keep going
                            seq = Seq::new();
                            m = Vec::new();
                            break;
                        }
                    }
                    ctx.eval();
                    let hist = || format!("{name} start {:?} after {:?}", a.text(&start_codes), descr);
                    if !verify::<C>(ctx, &seq, &m, &hist, step + 1 == depth) {
                        ok = false;
                        break;
                    }
                }
                if ok {
                    histories += 1;
                    if !ctx.lite {
                        let head = seq.verif_layout().0;
                        let cap = seq.verif_capacity_bits();
                        let capc = if cap == m.len() * a.bits as usize { "exact" } else { "spare" };
                        ctx.cell_k(fp(&[name.as_bytes(), descr.last().map(|s| s.split('(').next().unwrap()).unwrap_or("").as_bytes(), len_class(a.bits, m.len()).as_bytes(), &[head as u8], capc.as_bytes()]),
                            || format!("{name}/last-op={}/{}/head{}/cap-{}", descr.last().map(|s| s.split('(').next().unwrap().to_string()).unwrap_or_default(), len_class(a.bits, m.len()), head, capc));
                        ctx.nontrivial(fp(&[name.as_bytes(), &start_codes, &(h as u64).to_le_bytes(), &[depth as u8]]));
                    }
                    if h % 997 == 3 {
                        ctx.sample(|| json!({"codec": name, "start": a.text(&start_codes), "history": descr, "end": a.text(&m)}));
                    }
                }
            }
        }
        ctx.count(&format!("{name}/exhaustive-depth{depth}/histories"), histories);
    });
}

fn random_history<C: CI>(ctx: &mut Ctx, steps: usize, tag: usize) {
    let a = C::alpha();
    let name = C::NAME;
    let pw = per_word(a.bits);
    let noff = n_offsets(a.bits);
    let codes = a.codes();
    // pool of argument windows at random offsets, replenished as we go
    let mut pool = Args::<C> { items: Vec::new() };
    for _ in 0..12 {
        let n = *ctx.rng.pick(&[0usize, 1, 2, 3, pw - 1, pw, pw + 1, 2 * pw + 1]);
        let c = rand_codes(&mut ctx.rng, a, n.min(if ctx.lite { pw / 2 + 2 } else { usize::MAX }));
        let pad = ctx.rng.below(noff);
        pool.items.push((Padded::<C>::new(&mut ctx.rng, pad, &c, 2), c));
    }
    // most histories oscillate around 1-4 word boundaries; every fifth one grows to 8-33 words
    let target_words = if tag % 5 == 4 { [8usize, 9, 16, 33][(tag / 5) % 4] } else { 1 + tag % 4 };
    let start = if tag % 5 == 4 && !ctx.lite { target_words * pw - 3 + ctx.rng.below(6) } else { ctx.rng.below(pw + 2) };
    let sc = rand_codes(&mut ctx.rng, a, start);
    // start states differ in spare capacity: parsed, exact copy, pre-reserved
    let mut seq = match tag % 3 {
        0 => mk::<C>(&sc),
        1 => mk::<C>(&sc)[..].to_owned(),
        _ => {
            let mut s = Seq::<C>::with_capacity(start + tag % 130);
            for c in &sc {
                s.push(C::try_from_bits(*c).unwrap());
            }
            s
        }
    };
    let mut m = sc.clone();
    let mut snaps: Vec<(Seq<C>, Vec<u8>, &'static str)> = Vec::new();
    let mut strs: Vec<(String, Vec<u8>)> = Vec::new();
    let mut log: Vec<String> = vec![format!("start {:?}", a.text(&sc))];
    let maxlen = if ctx.lite { pw + 4 } else { target_words * pw + pw / 2 };
    for step in 0..steps {
        if ctx.over() {
            break;
        }
        let n = m.len();
        // keep the length oscillating around word boundaries
        let shrink = n > maxlen || (n > maxlen / 2 && ctx.rng.chance(1, 3));
        let op = if shrink {
            match ctx.rng.below(4) {
                0 => Op::Truncate(Pos::At(ctx.rng.below(n + 1)), 0),
                1 if ctx.rng.chance(1, 8) => Op::Clear,
                _ => {
                    let x = ctx.rng.below(n + 1);
                    let y = ctx.rng.range(x, n);
                    let forms: Vec<u8> = (0..NFORMS).filter(|f| rform_ok(*f, x, y, n)).collect();
                    Op::Remove(*ctx.rng.pick(&forms), Pos::At(x), Pos::At(y))
                }
            }
        } else {
            let arg = ctx.rng.below(pool.items.len());
            match ctx.rng.below(12) {
                0 | 1 => Op::Push(*ctx.rng.pick(&codes)),
                2 => Op::ExtInherent(rand_codes(&mut ctx.rng, a, 1 + step % 5)),
                3 => Op::ExtTrait(rand_codes(&mut ctx.rng, a, step % 4)),
                4 | 5 => Op::Append(arg),
                6 => Op::Prepend(arg),
                7 | 8 => Op::Insert(Pos::At(ctx.rng.below(n + 1)), arg),
                9 => Op::Truncate(Pos::At(n), if ctx.rng.chance(1, 4) { *ctx.rng.pick(&[usize::MAX / 2 + 1, usize::MAX / 4 + 1, usize::MAX / 8 + 5, usize::MAX - n]) } else { ctx.rng.below(3) }), // n >= len: no-op
                10 => {
                    let x = ctx.rng.below(n + 1);
                    let y = ctx.rng.range(x, n);
                    let forms: Vec<u8> = (0..NFORMS).filter(|f| rform_ok(*f, x, y, n)).collect();
                    Op::Remove(*ctx.rng.pick(&forms), Pos::At(x), Pos::At(y))
                }
                _ => Op::Insert(if ctx.rng.chance(1, 2) { Pos::Zero } else { Pos::Len }, arg),
            }
        };
        let before = a.text(&m);
        let r = observe(|| {
            let d = apply::<C>(&mut seq, &mut m, &op, &pool);
            (d, seq, m)
        });
        match r {
            Ok((d, s2, m2)) => {
                seq = s2;
                m = m2;
                match d {
                    Some(d) => log.push(d),
                    None => continue,
                }
            }
            Err(pm) => {
                check!(ctx, false, format!("edit|{name}|panics"), "{name} history (last 12) {:?} then {:?} on {:?}: panicked: {pm}", &log[log.len().saturating_sub(12)..], op, before);
                return;
            }
        }
        ctx.eval();
        let hist = || format!("{name} history[{}] (last 12 of {}): {:?}", tag, log.len(), &log[log.len().saturating_sub(12)..]);
        if !verify::<C>(ctx, &seq, &m, &hist, step % 8 == 0) {
            return;
        }
        if !ctx.lite {
            let head = seq.verif_layout().0;
            let lm = m.len() % pw;
            let lmc = if lm == 0 { "0" } else if lm == 1 { "1" } else if lm == pw - 1 { "W-1" } else { "mid" };
            let opn = log.last().unwrap().split('(').next().unwrap().to_string();
            ctx.cell_k(fp(&[b"rand", name.as_bytes(), opn.as_bytes(), lmc.as_bytes(), &[head as u8, (m.len() / pw).min(4) as u8]]),
                || format!("{name}/random/{opn}/len%W={lmc}/words={}/head{head}", (m.len() / pw).min(4)));
            ctx.nontrivial(fp(&[b"rand", name.as_bytes(), before.as_bytes(), log.last().unwrap().as_bytes()]));
        }
        // aliasing: take snapshots now and then, verified at the end
        if ctx.rng.chance(1, 9) && snaps.len() < 40 {
            match ctx.rng.below(3) {
                0 => snaps.push((seq.clone(), m.clone(), "clone")),
                1 => {
                    let x = ctx.rng.below(m.len() + 1);
                    let y = ctx.rng.range(x, m.len());
                    snaps.push((seq[x..y].to_owned(), m[x..y].to_vec(), "slice.to_owned"));
                }
                _ => strs.push((seq.to_string(), m.clone())),
            }
            // and feed a window of an earlier clone back as an argument
            if let Some((s, c, _)) = snaps.last() {
                if !c.is_empty() {
                    let x = ctx.rng.below(c.len());
                    let y = ctx.rng.range(x, c.len());
                    let w = c[x..y].to_vec();
                    let par = Padded { parent: s.clone(), pad: x, len: y - x };
                    let k = ctx.rng.below(pool.items.len());
                    pool.items[k] = (par, w);
                }
            }
        }
    }
    // re-verify every snapshot: a snapshot that changed is a violation
    for (s, c, kind) in &snaps {
        ctx.eval();
        check!(ctx, codes_of::<C>(s) == *c && s.len() == c.len(), format!("alias|{name}|{kind}-changed"), "{name} history[{tag}]: a {kind} taken earlier now reads {:?}, was {:?}", show::<C>(s), a.text(c));
    }
    for (s, c) in &strs {
        check!(ctx, *s == a.text(c), format!("alias|{name}|string-changed"), "{name}: String snapshot changed");
    }
    ctx.count(&format!("{name}/random/snapshots-reverified"), (snaps.len() + strs.len()) as u64);
    if tag < 2 {
        ctx.sample(|| json!({"codec": name, "history_len": log.len(), "first_ops": &log[..log.len().min(14)], "end_len": m.len(), "snapshots": snaps.len() + strs.len()}));
    }
}

/// extend / Extend::extend / collect fed by an iterator that panics after k items: whatever the sequence holds
/// afterwards must be its old content followed by a prefix of the symbols actually produced (a list never
/// grows symbols nobody supplied)
fn panicking_iterator<C: CI>(ctx: &mut Ctx) {
    let a = C::alpha();
    let name = C::NAME;
    ctx.group(&format!("{name}/extend-with-panicking-iterator"), |ctx| {
        let nz: Vec<u8> = { let z = *a.codes().iter().min().unwrap(); a.codes().into_iter().filter(|c| *c != z).collect() };
        for r in 0..ctx.n(60, 1200, 3) {
            if ctx.over() {
                break;
            }
            let n0 = ctx.rng.below(per_word(a.bits) + 3);
            let old = rand_codes(&mut ctx.rng, a, n0);
            let total = 1 + ctx.rng.below(2 * per_word(a.bits));
            let k = ctx.rng.below(total); // items produced before the panic
            // non-zero codes only, so that zero-filled phantom slots are recognisable
            let items: Vec<u8> = (0..total).map(|_| *ctx.rng.pick(&nz)).collect();
            let syms: Vec<C> = items.iter().map(|c| C::try_from_bits(*c).unwrap()).collect();
            let mut seq = mk::<C>(&old);
            let res = std::panic::catch_unwind(std::panic::AssertUnwindSafe(|| {
                let mut i = 0usize;
                // an exact-size iterator (lower bound = total) that panics at item k
                let it = syms.iter().map(|s| { if i == k { panic!("iterator gives up"); } i += 1; *s });
                if r % 2 == 0 { seq.extend(it) } else { Extend::extend(&mut seq, it) }
            }));
            ctx.eval();
            check!(ctx, res.is_err(), format!("extend|{name}|harness"), "the panicking iterator did not panic");
            let _ = take_last_panic_location();
            let got = codes_of::<C>(&seq);
            let ok = got.len() >= n0 && got.len() <= n0 + k && got[..n0] == old[..] && got[n0..] == items[..got.len() - n0];
            check!(ctx, ok, format!("extend|{name}|state-after-panicking-iterator"), "{name}: extend of {:?} with an iterator of {total} symbols that panics after producing {k}: the sequence now reads {:?} ({} symbols); a list would hold the old content plus at most those {k} symbols {:?}", a.text(&old), a.text_lossy(&got), got.len(), a.text(&items[..k]));
            cell!(ctx, "{name}/extend-panicking/{}", if k == 0 { "k=0" } else { "k>0" });
            ctx.nontrivial(fp(&[b"panic-iter", name.as_bytes(), &old, &items, &[k as u8]]));
        }
    });
}

/// Slice arguments that are the tail of an allocation without spare words (whole-word lengths, aligned and
/// unaligned starts), given to every edit operation that takes a slice, on receivers of several lengths and
/// capacities.  A fast path that copies "the words holding the argument" must not look past its last word.
fn exact_fit_arguments<C: CI>(ctx: &mut Ctx) {
    let a = C::alpha();
    let name = C::NAME;
    let pw = per_word(a.bits);
    ctx.group(&format!("{name}/exact-fit-arguments"), |ctx| {
        let w = exact_fit_cases(a.bits)[0].0;
        let cases = exact_fit_cases_for(ctx, a.bits);
        let args = {
            let _fit = exact_fit_mode();
            Args::<C> {
                items: cases.iter().map(|(n, pad)| {
                    let c = rand_codes(&mut ctx.rng, a, *n);
                    (Padded::<C>::new(&mut ctx.rng, *pad, &c, 0), c)
                }).collect(),
            }
        };
        let mut k = 0usize;
        for i in 0..cases.len() {
            for op in [Op::Append(i), Op::Prepend(i), Op::Insert(Pos::Zero, i), Op::Insert(Pos::Mid, i), Op::Insert(Pos::Len, i)] {
                let starts = if ctx.lite { [0usize, w.min(33), pw - 1, 1] } else { [0usize, w, pw - 1, 2 * w + 1] };
                for (si, start) in starts.into_iter().enumerate() {
                    k += 1;
                    if ctx.lite && ((k + ctx.shard + ctx.seed as usize) % 9 != 0 || ctx.over()) {
                        continue;
                    }
                    let sc = rand_codes(&mut ctx.rng, a, start);
                    // receivers with spare capacity (parsed) and without (exact copy)
                    let mut seq = if (si + i) % 2 == 0 { mk::<C>(&sc) } else { exact_copy::<C>(&mk::<C>(&sc)) };
                    let mut m = sc.clone();
                    ctx.eval();
                    let r = observe(|| {
                        let d = apply::<C>(&mut seq, &mut m, &op, &args);
                        (d, seq, m)
                    });
                    match r {
                        Ok((d, seq, m)) => {
                            let hist = || format!("{name} start {:?} then {} (argument: window [{},{}) ending its exact-capacity parent)", a.text(&sc), d.clone().unwrap_or_default(), cases[i].1, cases[i].1 + cases[i].0);
                            verify::<C>(ctx, &seq, &m, &hist, true);
                            // the argument and its parent are untouched
                            let (p, c) = &args.items[i];
                            check!(ctx, codes_of::<C>(p.slice()) == *c && p.parent.len() == cases[i].1 + cases[i].0, format!("edit|{name}|argument-changed"), "{}: the argument changed", hist());
                        }
                        Err(pm) => check!(ctx, false, format!("edit|{name}|panics"), "{name} start {:?} then {:?} with an exact-fit argument of {} symbols at {}: panicked: {pm}", a.text(&sc), op, cases[i].0, cases[i].1),
                    }
                    cell!(ctx, "{name}/exact-fit-argument/{}/{}", len_class(a.bits, cases[i].0), match op { Op::Append(_) => "append", Op::Prepend(_) => "prepend", _ => "insert" });
                    ctx.nontrivial(fp(&[b"xfa", name.as_bytes(), &[i as u8, si as u8], format!("{op:?}").as_bytes()]));
                }
            }
        }
    });
}

/// Edits that move 2^10 .. 2^16 symbols (65 .. 2049 machine words) in ONE call: extend from an iterator of that many
/// symbols (inherent and trait form), append / insert / prepend of a slice that long, removal of a range that long,
/// truncation, then single pushes; random and structured contents; the model is compared after every step.
fn huge_edits<C: CI>(ctx: &mut Ctx) {
    let a = C::alpha();
    let name = C::NAME;
    let noff = n_offsets(a.bits);
    if ctx.lite {
        return;
    }
    ctx.group(&format!("{name}/huge-edits"), |ctx| {
        let sym = |c: u8| C::try_from_bits(c).expect("model code");
        for (k, n) in huge_lengths(ctx, a.bits).into_iter().enumerate() {
            let big = structured_codes(&mut ctx.rng, a, n, k);
            let pad = [1 % noff, 0, (k * 5 + 3) % noff][k % 3];
            let parg = Padded::<C>::new(&mut ctx.rng, pad, &big, 2);
            let arg = parg.slice();
            let s0 = [0usize, 5, n / 3, 1][k % 4];
            let mut m = rand_codes(&mut ctx.rng, a, s0);
            let mut seq = mk::<C>(&m);
            let mut log: Vec<String> = vec![format!("start len {s0}")];
            let steps: Vec<&str> = match k % 3 { 0 => vec!["extend", "append", "remove", "insert", "truncate", "push"], 1 => vec!["Extend::extend", "prepend", "insert", "remove", "push", "extend"], _ => vec!["append", "extend", "truncate", "Extend::extend", "remove", "push"] };
            for step in steps {
                let len = m.len();
                let r = observe(|| {
                    match step {
                        "extend" => { seq.extend(big.iter().map(|c| sym(*c))); m.extend(&big); }
                        "Extend::extend" => { Extend::extend(&mut seq, big.iter().map(|c| sym(*c)).filter(|_| true)); m.extend(&big); }
                        "append" => { seq.append(arg); m.extend(&big); }
                        "prepend" => { seq.prepend(arg); let mut v = big.clone(); v.extend(m.iter()); m = v; }
                        "insert" => { let at = len / 2; seq.insert(at, arg); let tail = m.split_off(at); m.extend(&big); m.extend(tail); }
                        "remove" => { let x = len / 4; let y = (x + n).min(len); seq.remove(x..y); m.drain(x..y); }
                        "truncate" => { let t = len / 2 + 1; seq.truncate(t); m.truncate(t); }
                        _ => { for c in big.iter().take(3) { seq.push(sym(*c)); m.push(*c); } }
                    }
                    (seq, m)
                });
                ctx.eval();
                log.push(format!("{step}({n} symbols, pattern {}, argument at pad {pad})", k % 7));
                match r {
                    Ok((s2, m2)) => {
                        seq = s2;
                        m = m2;
                    }
                    Err(pm) => {
                        check!(ctx, false, format!("edit|{name}|panics"), "{name} {:?}: panicked: {pm}", log);
                        seq = Seq::new();
                        m = Vec::new();
                        break;
                    }
                }
                let hist = || format!("{name} {:?}", log);
                if !verify_huge::<C>(ctx, &seq, &m, &hist) {
                    break;
                }
            }
            cell!(ctx, "{name}/huge-edits/2^{}", usize::BITS - n.leading_zeros());
            ctx.nontrivial(fp(&[b"hugeedit", name.as_bytes(), &(n as u64).to_le_bytes(), &[k as u8]]));
        }
    });
}
/// `verify` for long values: messages name the first differing position instead of printing the texts
fn verify_huge<C: CI>(ctx: &mut Ctx, seq: &Seq<C>, m: &[u8], hist: &dyn Fn() -> String) -> bool {
    let a = C::alpha();
    let name = C::NAME;
    let before = ctx.n_viols();
    check!(ctx, seq.len() == m.len(), format!("edit|{name}|length"), "{}: len {} want {}", hist(), seq.len(), m.len());
    let got = codes_of::<C>(seq);
    let first = got.iter().zip(m).position(|(g, w)| g != w);
    check!(ctx, got.len() == m.len() && first.is_none(), format!("edit|{name}|symbols"), "{}: {} symbols (want {}), first difference at position {:?}", hist(), got.len(), m.len(), first);
    let nb = m.len() * a.bits as usize;
    check!(ctx, seq.verif_layout().1 == nb, format!("edit|{name}|bit-length"), "{}: bit length {} want {nb}", hist(), seq.verif_layout().1);
    check!(ctx, model::live_bits(seq.into_raw(), nb) == model::pack_words(a.bits, m), format!("edit|{name}|raw-image"), "{}: raw image differs from the packed model", hist());
    let fresh = mk::<C>(m);
    check!(ctx, *seq == fresh && hash_stream(seq) == hash_stream(&fresh) && show::<C>(seq) == a.text(m), format!("edit|{name}|eq-fresh-parse"), "{}: not equal to / hashes or displays differently from a fresh parse of the model", hist());
    ctx.n_viols() == before
}

fn run<C: CI>(ctx: &mut Ctx) {
    let name = C::NAME;
    huge_edits::<C>(ctx);
    exact_fit_arguments::<C>(ctx);
    panicking_iterator::<C>(ctx);
    exhaustive::<C>(ctx, 1);
    exhaustive::<C>(ctx, 2);
    let deep = matches!(name, "dna" | "miupac") || (ctx.tier == Tier::Thorough && !ctx.lite);
    if deep && !ctx.lite {
        exhaustive::<C>(ctx, 3);
    }
    ctx.group(&format!("{name}/random-histories"), |ctx| {
        let histories = ctx.n(60, 600, 1);
        let steps = ctx.n(200, 2000, 40);
        for t in 0..histories {
            if ctx.over() {
                break;
            }
            random_history::<C>(ctx, steps, t);
        }
    });
}

fn main() {
    run_main("C06", |ctx| {
        ctx.first_use_race(3, |t| {
            let mut d: Seq<Dna> = "ACGTTGCAACGTACGTACGTACGTACGTACGTTTGA".try_into().unwrap();
            let mut i: Seq<Iupac> = "ACGTRYSWKMBDHVN-ACGT".try_into().unwrap();
            let arg: Seq<Dna> = "TTTTGGGG".try_into().unwrap();
            d.push(Dna::G);
            d.append(&arg[t..]);
            d.prepend(&arg[..t + 2]);
            d.insert(3 + t, &arg);
            d.remove(1..4 + t);
            d.truncate(30 + t);
            d.extend(arg.iter());
            i.push(Iupac::N);
            i.insert(t, &i.clone()[2..5]);
            i.remove(..t);
            let mut e = d.clone();
            e.clear();
            (d.to_string(), i.to_string(), e.len(), d.len())
        });
        for_each_codec!(run, ctx);
        ctx.note("rule", json!("history + executable Vec model. (a) bounded-exhaustive: ~46 concrete ops (push x2, extend x2, clear, truncate x6 incl. n>len and n so large that n*BITS overflows, append/prepend/insert{0,mid,len} x 3 argument shapes {empty@1, 1 symbol@offset 1, 3 symbols straddling a word}, remove in 14 position/RangeBounds-form combinations incl. Bound tuples) from start lengths {0,1,W-1,W,W+1}: ALL histories of depth 1-2 for every codec, depth 3 for dna and miupac (thorough: all codecs); (b) random histories of 200 (thorough 2000) ops with lengths oscillating around 1-4 word boundaries (every fifth history around 8, 9, 16 or 33 words), start states with exact / spare / pre-reserved capacity, Extend fed through iterators of seven size-hint shapes, arguments = windows at random bit offsets of other sequences and of earlier clones, every RangeBounds form. After every step: len, symbols, bit length, raw image; display / == fresh parse / hash every step (exhaustive: last step) resp. every 8th (random). Snapshots (clone, slice.to_owned, String) re-verified at the end. extend / Extend::extend with an iterator that panics after k items: the sequence must hold its old content plus a prefix of the produced symbols. Distinct = (codec, start, history index) resp. (codec, state-before, op)."));
    });
}
