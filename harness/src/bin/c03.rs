//! C03 — slicing and indexing select exactly the requested symbols, or refuse.
//! Oracle: Vec slicing of the model; out-of-bounds forms must panic (get -> None) in both
//! assertion modes.  The windows are themselves placed at every achievable bit offset inside a
//! larger parent, so "past the end" of a window is still inside the parent's buffer.

use bio_seq::prelude::*;
use bsv::*;
use serde_json::json;

const FORMS: [&str; 7] = ["a..b", "a..=b", "..b", "..=b", "a..", "..", "[i]"];

/// apply range form `f` selecting model positions [a, b) of `s` (caller guarantees the form can express it)
fn apply<'a, C: CI>(s: &'a SeqSlice<C>, f: usize, a: usize, b: usize) -> &'a SeqSlice<C> {
    match f {
        0 => &s[a..b],
        1 => &s[a..=b - 1],
        2 => &s[..b],
        3 => &s[..=b - 1],
        4 => &s[a..],
        5 => &s[..],
        _ => &s[a],
    }
}
fn form_ok(f: usize, a: usize, b: usize, n: usize) -> bool {
    match f {
        0 => true,
        1 => b > a,
        2 => a == 0,
        3 => a == 0 && b > 0,
        4 => b == n,
        5 => a == 0 && b == n,
        _ => b == a + 1,
    }
}

fn verify<C: CI>(ctx: &mut Ctx, sub: &SeqSlice<C>, want: &[u8], what: &str, full: bool) {
    let name = C::NAME;
    let n = want.len();
    check!(ctx, sub.len() == n, format!("index|{name}|length"), "{what}: len {} want {n}", sub.len());
    check!(ctx, sub.is_empty() == (n == 0), format!("is_empty|{name}|wrong"), "{what}: is_empty {} for len {n}", sub.is_empty());
    if sub.len() != n {
        return;
    }
    if full || n <= 8 {
        let got = codes_of::<C>(sub);
        check!(ctx, got == want, format!("index|{name}|content"), "{what}: codes {:?} want {:?}", got, want);
    } else {
        // first, last and two interior positions through nth/get
        for i in [0, n - 1, n / 2, n / 3] {
            check!(ctx, sub.nth(i).to_bits() == want[i], format!("index|{name}|content"), "{what}: symbol {i} wrong");
        }
    }
    if full && n > 0 {
        let i = n / 2;
        check!(ctx, sub.nth(i).to_bits() == want[i] && sub.get(i).map(|x| x.to_bits()) == Some(want[i]) && sub[i].nth(0).to_bits() == want[i],
            format!("nth/get|{name}|content"), "{what}: nth/get/[i]({i}) wrong");
        check!(ctx, sub.to_string() == C::alpha().text(want), format!("display|{name}|substring"), "{what}: displays {:?} want {:?}", sub.to_string(), C::alpha().text(want));
    }
}

/// every out-of-bounds form on a window of length n must refuse
fn refusals<C: CI>(ctx: &mut Ctx, s: &SeqSlice<C>, n: usize, what: &str) {
    let name = C::NAME;
    let pw = per_word(C::BITS);
    let mut t = |ctx: &mut Ctx, form: &str, r: Result<usize, String>| {
        ctx.eval();
        cell!(ctx, "{name}/oob/{form}");
        if let Ok(l) = r {
            check!(ctx, false, format!("index-oob|{name}|{form}|returns-slice"), "{what}: out-of-bounds {form} on a window of {n} symbols returned a slice of {l} symbols instead of panicking");
        }
    };
    for over in [1usize, 2, pw] {
        let b = n + over;
        t(ctx, "a..b", observe(|| s[0..b].len()));
        t(ctx, "a..b", observe(|| s[n..b].len()));
        t(ctx, "..b", observe(|| s[..b].len()));
        t(ctx, "a..=b", observe(|| s[0..=b - 1].len()));
        t(ctx, "..=b", observe(|| s[..=b - 1].len()));
        t(ctx, "a..", observe(|| s[b..].len()));
        t(ctx, "[i]", observe(|| s[b - 1].len()));
        t(ctx, "nth", observe(|| { let _ = s.nth(b - 1); 1 }));
        ctx.eval();
        check!(ctx, s.get(b - 1).is_none(), format!("get-oob|{name}|returns-symbol"), "{what}: get({}) on {n} symbols returned a symbol", b - 1);
    }
    if n > 0 {
        t(ctx, "a..=b", observe(|| s[n - 1..=n].len()));
    }
    // far beyond the end: indices whose bit position overflows the machine word must not wrap
    // around into the sequence (release builds have no overflow checks)
    let b = C::BITS as usize;
    for far in [usize::MAX, usize::MAX - 1, usize::MAX / b, (usize::MAX / b).saturating_add(1), 1usize << 63, (1usize << 63) + 1, ((1usize << 63) / b).saturating_mul(2), (1usize << 62) + 2, usize::MAX / b / 2 + 2] {
        if far <= n + pw {
            continue; // (1-bit codec: some of these are ordinary indices)
        }
        t(ctx, "[i]-far", observe(|| s[far].len()));
        t(ctx, "nth-far", observe(|| { let _ = s.nth(far); 1 }));
        t(ctx, "a..-far", observe(|| s[far..].len()));
        t(ctx, "..b-far", observe(|| s[..far].len()));
        t(ctx, "..=b-far", observe(|| s[..=far].len()));
        t(ctx, "a..=b-far", observe(|| s[0..=far].len()));
        t(ctx, "a..b-far", observe(|| s[0..far].len()));
        if let Some(f1) = far.checked_add(1) {
            t(ctx, "a..b-far", observe(|| s[far..f1].len()));
        }
        t(ctx, "a..=b-far", observe(|| s[far..=far].len()));
        ctx.eval();
        // the optional accessor returns nothing (it must not panic either: None is what the statement promises)
        match observe(|| s.get(far).is_none()) {
            Ok(true) => {}
            Ok(false) => check!(ctx, false, format!("get-oob|{name}|returns-symbol-far"), "{what}: get({far:#x}) on {n} symbols returned a symbol"),
            Err(pm) => check!(ctx, false, format!("get-oob|{name}|panics-far"), "{what}: get({far:#x}) panicked instead of returning None: {pm}"),
        }
    }
}

fn run<C: CI>(ctx: &mut Ctx) {
    let a = C::alpha();
    let name = C::NAME;
    let pw = per_word(a.bits);
    let noff = n_offsets(a.bits);

    // ------------------------------------------------------------ complete (a,b) enumeration
    ctx.group(&format!("{name}/all-ranges"), |ctx| {
        let mut lens: Vec<usize> = (0..=6).collect();
        lens.extend(boundary_lengths(a.bits, 2));
        lens.push(2 * pw + pw / 2);
        lens.sort_unstable();
        lens.dedup();
        if ctx.lite {
            lens = vec![0, 1, pw + 1];
        }
        for (li, &len) in lens.iter().enumerate() {
            // the window sits at a different bit offset for every length; thorough sweeps all offsets
            let pads: Vec<usize> = if ctx.lite { vec![(ctx.shard * 5 + li) % noff.max(1)] }
                else if ctx.tier == Tier::Thorough { (0..noff).collect() } else { (0..noff).filter(|o| (o + li) % 4 == 0).collect() };
            for pad in pads {
                let codes = cover_codes(&mut ctx.rng, a, len);
                let p = Padded::<C>::new(&mut ctx.rng, pad, &codes, 3 + pw);
                let win = p.slice();
                let (head, _) = win.verif_layout();
                refusals::<C>(ctx, win, len, &format!("{name} window len {len} pad {pad}"));
                let mut k = 0usize;
                for s in 0..=len {
                    for e in s..=len {
                        for f in 0..7 {
                            if !form_ok(f, s, e, len) {
                                continue;
                            }
                            k += 1;
                            if ctx.lite && (!ctx.mine(k) || ctx.over()) {
                                continue;
                            }
                            ctx.eval();
                            let what = format!("{name} len {len} pad {pad} {}[{s},{e})", FORMS[f]);
                            match observe(|| apply::<C>(win, f, s, e)) {
                                Ok(sub) => {
                                    let full = (s + e + f) % 5 == 0 || e - s <= 8;
                                    verify::<C>(ctx, sub, &codes[s..e], &what, full);
                                    let (h2, _) = sub.verif_layout();
                                    ctx.cell_k(fp(&[name.as_bytes(), &[f as u8, h2 as u8], len_class(a.bits, e - s).as_bytes()]),
                                        || format!("{name}/{}/head{}/{}", FORMS[f], h2, len_class(a.bits, e - s)));
                                    ctx.nontrivial(fp(&[name.as_bytes(), &[f as u8, (head % 64) as u8], &(s as u32).to_le_bytes(), &(e as u32).to_le_bytes(), &(len as u32).to_le_bytes()]));
                                }
                                Err(p) => check!(ctx, false, format!("index|{name}|{}|panics-in-bounds", FORMS[f]), "{what}: in-bounds range panicked: {p}"),
                            }
                        }
                    }
                }
                ctx.sample(|| json!({"codec": name, "window_len": len, "pad_symbols": pad, "head_bit": head, "ranges": "all (a,b) with 0<=a<=b<=len through every range form that can express them", "oob": "b in {len+1,len+2,len+symbols/word}"}));
            }
        }
    });

    // ------------------------------------------------------------ exact-fit: nothing after the window
    // The windows above sit inside a larger parent, so "one past the end" is still inside the buffer.  Here the
    // window is the tail of an allocation without spare words (whole-word lengths, aligned / unaligned starts):
    // reading the last symbols must not touch anything after them, and every out-of-bounds form has to be refused
    // *before* any access (Miri / ASan / memcheck see an access past the allocation even when the value is right).
    ctx.group(&format!("{name}/exact-fit"), |ctx| {
        let mut cases = exact_fit_cases_for(ctx, a.bits);
        if ctx.lite {
            cases.truncate(3); // a few cases per run under the sanitizers' budgets; which ones depends on shard and seed
        }
        for (len, pad) in cases {
            let _fit = exact_fit_mode();
            let codes = cover_codes(&mut ctx.rng, a, len);
            let p = Padded::<C>::new(&mut ctx.rng, pad, &codes, 0);
            let win = p.slice();
            let what = format!("{name} exact-fit window len {len} at symbol {pad} of a parent of {} symbols", pad + len);
            ctx.eval();
            // the last symbols through every accessor, the full range and the suffixes
            for back in 1..=len.min(5) {
                let i = len - back;
                let r = observe(|| (win.nth(i).to_bits(), win.get(i).map(|x| x.to_bits()), u8::from(&win[i]), win[i..].len(), win.iter().nth(i).map(|x| x.to_bits()), win.rev_iter().nth(back - 1).map(|x| x.to_bits())));
                check!(ctx, r == Ok((codes[i], Some(codes[i]), codes[i], back, Some(codes[i]), Some(codes[i]))), format!("nth/get|{name}|exact-fit-last-symbols"), "{what}: symbol {i} through nth/get/[i]/iter = {:?}, want code {}", r, codes[i]);
            }
            verify::<C>(ctx, &win[..], &codes, &what, true);
            if len > 1 {
                verify::<C>(ctx, &win[1..], &codes[1..], &what, true);
                verify::<C>(ctx, &win[len - 1..], &codes[len - 1..], &what, true);
                verify::<C>(ctx, &win[..len - 1], &codes[..len - 1], &what, true);
            }
            verify::<C>(ctx, &win[len..], &[], &what, true);
            // the same on the owned parent (Seq receiver)
            let all: Vec<u8> = codes_of::<C>(&p.parent);
            verify::<C>(ctx, &p.parent[pad..], &codes, &what, true);
            check!(ctx, all.len() == pad + len && all[pad..] == codes[..], format!("index|{name}|exact-fit-parent"), "{what}: parent reads back {:?}", all);
            if ctx.lite {
                // the nearest out-of-bounds forms only (each refusal is an unwinding panic: slow under Miri)
                for (form, r) in [("[i]", observe(|| win[len].len())), ("..b", observe(|| win[..len + 1].len())), ("a..", observe(|| win[len + 1..].len())), ("nth", observe(|| { let _ = win.nth(len); 1 }))] {
                    ctx.eval();
                    check!(ctx, r.is_err(), format!("index-oob|{name}|{form}|returns-slice"), "{what}: out-of-bounds {form} one past the end returned {:?} instead of panicking", r);
                }
                check!(ctx, win.get(len).is_none() && p.parent.get(pad + len).is_none(), format!("get-oob|{name}|returns-symbol"), "{what}: get one past the end returned a symbol");
            } else {
                refusals::<C>(ctx, win, len, &what);
                refusals::<C>(ctx, &p.parent, pad + len, &what);
            }
            cell!(ctx, "{name}/exact-fit/{}/pad{}", len_class(a.bits, len), if pad == 0 { "0" } else if (pad * a.bits as usize) % 64 == 0 { "word" } else { "unaligned" });
            ctx.nontrivial(fp(&[b"xf", name.as_bytes(), &codes, &[pad as u8]]));
        }
    });

    // ------------------------------------------------------------ Seq receiver and static literals
    ctx.group(&format!("{name}/owned-receiver"), |ctx| {
        let mut lens = if ctx.lite { vec![pw + 1] } else { boundary_lengths(a.bits, 2) };
        lens.extend(huge_lengths(ctx, a.bits).into_iter().step_by(2)); // far-from-small lengths (none under reduced budgets)
        for len in lens {
            if ctx.over() {
                break;
            }
            let codes = if len > 1100 { structured_codes(&mut ctx.rng, a, len, len) } else { cover_codes(&mut ctx.rng, a, len) };
            let seq = mk::<C>(&codes);
            if len > 1100 {
                // ranges that start / end at block seams of a long sequence, through the accessors that do not copy
                for st in [0usize, 1023, 1024, 4095, 4096, 8191, 8192, 16383, 16384, 32767, 32768, len - 1] {
                    if st >= len {
                        continue;
                    }
                    ctx.eval();
                    let e = (st + 70).min(len);
                    let r = observe(|| (codes_of::<C>(&seq[st..e]), seq.nth(st).to_bits(), seq.get(st).map(|x| x.to_bits()), seq[st..].len(), seq[..=st].len(), codes_of::<C>(&seq[st..][..e - st]), u8::from(&seq[st])));
                    check!(ctx, r == Ok((codes[st..e].to_vec(), codes[st], Some(codes[st]), len - st, st + 1, codes[st..e].to_vec(), codes[st])), format!("index|{name}|huge"), "{name} owned len {len}: position {st}: slices / nth / get disagree with the model");
                }
            }
            refusals::<C>(ctx, &seq, len, &format!("{name} owned len {len}"));
            for _ in 0..ctx.n(20, 200, 3) {
                let s = ctx.rng.below(len + 1);
                let e = ctx.rng.range(s, len);
                ctx.eval();
                let sub: &SeqSlice<C> = &seq[s..e];
                verify::<C>(ctx, sub, &codes[s..e], &format!("{name} owned len {len} [{s}..{e}]"), true);
                if e > s {
                    verify::<C>(ctx, &seq[s..=e - 1], &codes[s..e], &format!("{name} owned len {len} [{s}..={}]", e - 1), false);
                }
                verify::<C>(ctx, &seq[s..], &codes[s..], &format!("{name} owned len {len} [{s}..]"), false);
                verify::<C>(ctx, &seq[..e], &codes[..e], &format!("{name} owned len {len} [..{e}]"), false);
                cell!(ctx, "{name}/owned/{}", len_class(a.bits, e - s));
            }
        }
    });

    // ------------------------------------------------------------ nested re-slicing depth 2..3
    ctx.group(&format!("{name}/nested"), |ctx| {
        let rounds = ctx.n(4000, 100_000, 6);
        for r in 0..rounds {
            if ctx.over() {
                break;
            }
            let len = if ctx.lite { ctx.rng.range(1, pw + 3) } else if r % 25 == 24 { long_lengths(a.bits)[(r / 25) % long_lengths(a.bits).len()] } else { ctx.rng.range(1, 3 * pw + 2) };
            let pad = ctx.rng.below(noff);
            let codes = rand_codes(&mut ctx.rng, a, len);
            let p = Padded::<C>::new(&mut ctx.rng, pad, &codes, 2);
            let mut cur: &SeqSlice<C> = p.slice();
            let mut lo = 0usize;
            let mut hi = len;
            let depth = 2 + r % 2;
            let mut trail = String::new();
            let mut ok = true;
            for d in 0..depth {
                let n = hi - lo;
                let s = ctx.rng.below(n + 1);
                let e = ctx.rng.range(s, n);
                let forms: Vec<usize> = (0..7).filter(|f| form_ok(*f, s, e, n)).collect();
                let f = *ctx.rng.pick(&forms);
                trail.push_str(&format!(" {}[{s},{e})", FORMS[f]));
                match observe(|| apply::<C>(cur, f, s, e)) {
                    Ok(sub) => cur = sub,
                    Err(pm) => {
                        check!(ctx, false, format!("index|{name}|nested|panics-in-bounds"), "{name} len {len} pad {pad}{trail}: panicked: {pm}");
                        ok = false;
                        break;
                    }
                }
                hi = lo + e;
                lo += s;
                let (h, _) = cur.verif_layout();
                ctx.cell_k(fp(&[b"nest", name.as_bytes(), &[d as u8, h as u8]]), || format!("{name}/nested-depth{}/head{}", d + 1, h));
            }
            ctx.eval();
            if ok {
                verify::<C>(ctx, cur, &codes[lo..hi], &format!("{name} len {len} pad {pad}{trail}"), true);
                if r % 16 == 0 {
                    refusals::<C>(ctx, cur, hi - lo, &format!("{name} len {len} pad {pad}{trail}"));
                }
                ctx.nontrivial(fp(&[b"nest", name.as_bytes(), &codes, trail.as_bytes(), &[pad as u8]]));
            }
            if r < 2 {
                ctx.sample(|| json!({"codec": name, "parent_len": len, "pad": pad, "nested": trail, "selects": a.text(&codes[lo..hi])}));
            }
        }
    });
}

fn statics(ctx: &mut Ctx) {
    ctx.group("static-literals", |ctx| {
        let lits: Vec<(&'static SeqSlice<Dna>, &str)> = vec![
            (dna!(""), ""),
            (dna!("A"), "A"),
            (dna!("ACGTACGTTTGACCAGTAGCATCGATCGATTAG"), "ACGTACGTTTGACCAGTAGCATCGATCGATTAG"),
            (dna!("TTGACCAGTAGCATCGATCGATTAGACGTACGTTTGACCAGTAGCATCGATCGATTAGACGTACGT"), "TTGACCAGTAGCATCGATCGATTAGACGTACGTTTGACCAGTAGCATCGATCGATTAGACGTACGT"),
        ];
        let a = model::dna();
        for (lit, text) in lits {
            let codes: Vec<u8> = text.bytes().map(|b| a.code_of_char(b).unwrap()).collect();
            let n = codes.len();
            refusals::<Dna>(ctx, lit, n, &format!("dna! literal len {n}"));
            for s in 0..=n {
                if ctx.over() {
                    break;
                }
                for e in s..=n {
                    if ctx.lite && (s + e) % 9 != 0 {
                        continue;
                    }
                    ctx.eval();
                    verify::<Dna>(ctx, &lit[s..e], &codes[s..e], &format!("dna! literal len {n} [{s}..{e}]"), (s + e) % 4 == 0);
                    cell!(ctx, "dna/static/{}", len_class(2, e - s));
                }
            }
        }
        let il: &'static SeqSlice<Iupac> = iupac!("ACGTRYSWKMBDHVN-ACGTRYSWKMBDHVN-NN");
        let ia = model::iupac();
        let codes: Vec<u8> = "ACGTRYSWKMBDHVN-ACGTRYSWKMBDHVN-NN".bytes().map(|b| ia.code_of_char(b).unwrap()).collect();
        refusals::<Iupac>(ctx, il, codes.len(), "iupac! literal");
        for s in 0..=codes.len() {
            for e in s..=codes.len() {
                if ctx.lite && (s + e) % 9 != 0 {
                    continue;
                }
                ctx.eval();
                verify::<Iupac>(ctx, &il[s..e], &codes[s..e], &format!("iupac! literal [{s}..{e}]"), (s + e) % 4 == 0);
            }
        }
        cell!(ctx, "iupac/static");
    });
}

fn main() {
    run_main("C03", |ctx| {
        ctx.first_use_race(3, |t| {
            let d: Seq<Dna> = "ACGTTGCAACGTACGTACGTACGTACGTACGTTTGA".try_into().unwrap();
            let i: Seq<Iupac> = "ACGTRYSWKMBDHVN-ACGT".try_into().unwrap();
            let m: Seq<Amino> = "MAGICLIFEQRSTVWY*".try_into().unwrap();
            let k = 1 + t;
            (
                d[k..k + 20].to_string(),
                d.nth(k).to_bits(),
                d.get(100).is_none(),
                i[k..].to_string(),
                i[..=k].to_string(),
                u8::from(&i[k]),
                m[k..k + 9].to_string(),
                m.get(k).map(|x| x.to_bits()),
            )
        });
        for_each_codec!(run, ctx);
        statics(ctx);
        ctx.note("rule", json!("per codec: windows of every boundary length class (0..2.5 words) placed at varying (thorough: all) achievable bit offsets inside a larger parent; for each, ALL (a,b) with 0<=a<=b<=len through every range form able to express them (a..b, a..=b, ..b, ..=b, a.., .., [i]) plus nth/get; every out-of-bounds form with b in {len+1, len+2, len+symbols-per-word} and with far indices (usize::MAX, usize::MAX/BITS(+1), 2^63(+1), 2^62+2, ... whose bit position overflows) must panic (get -> None); random nested re-slicing of depth 2-3; owned receivers and static literals. Distinct = (codec, form, head bit, a, b, len) resp. (codec, content, nesting trail); all non-trivial."));
    });
}
