//! C04 — documented little-endian packing: symbol i lives at bits [i*BITS,(i+1)*BITS).
//! Oracle: sum(code_i << (i*BITS)) in u128 and the packed word image of the model.

use bio_seq::prelude::*;
use bsv::*;
use serde_json::json;
use std::marker::PhantomData;

// ------------------------------------------------------------------ (a) slices -> integers
fn ints<C: CI>(ctx: &mut Ctx) {
    let a = C::alpha();
    let name = C::NAME;
    let bits = a.bits as usize;
    let fit = 64 / bits;
    let noff = n_offsets(a.bits);
    let codes_all = a.codes();
    let maxc = *codes_all.iter().max().unwrap();
    ctx.group(&format!("{name}/slice-to-int"), |ctx| {
        let lens: Vec<usize> = if ctx.lite { vec![1, fit / 2 + 1, fit] } else { (1..=fit).collect() };
        for n in lens {
            for pad in 0..noff {
                if ctx.lite && !ctx.mine(pad + n) {
                    continue;
                }
                if ctx.over() {
                    break;
                }
                let reps = ctx.n(3, 24, 1);
                for r in 0..reps {
                    let codes: Vec<u8> = match r {
                        0 => rand_codes(&mut ctx.rng, a, n),
                        1 => vec![maxc; n],
                        2 => { let mut v = vec![codes_all[0]; n]; let i = ctx.rng.below(n); v[i] = maxc; v }
                        _ => rand_codes(&mut ctx.rng, a, n),
                    };
                    let want = model::pack_u128(a.bits, &codes);
                    let p = Padded::<C>::new(&mut ctx.rng, pad, &codes, 2);
                    let s = p.slice();
                    let (head, _) = s.verif_layout();
                    ctx.eval();
                    let what = format!("{name} {:?} pad {pad}", a.text(&codes));
                    match observe(|| usize::try_from(s)) {
                        Ok(Ok(v)) => check!(ctx, v as u128 == want, format!("usize::try_from(&slice)|{name}|value"), "{what}: usize::try_from = {v:#x} want {want:#x}"),
                        Ok(Err(e)) => check!(ctx, false, format!("usize::try_from(&slice)|{name}|refuses-fitting"), "{what}: refused a {}-bit slice: {e:?}", n * bits),
                        Err(pm) => check!(ctx, false, format!("usize::try_from(&slice)|{name}|panics"), "{what}: panicked {pm}"),
                    }
                    if n * bits <= 8 {
                        match observe(|| u8::from(s)) {
                            Ok(v) => check!(ctx, v as u128 == want, format!("u8::from(&slice)|{name}|value"), "{what}: u8::from = {v:#x} want {want:#x}"),
                            Err(pm) => check!(ctx, false, format!("u8::from(&slice)|{name}|panics"), "{what}: panicked {pm}"),
                        }
                    }
                    match observe(|| usize::from(s.to_owned())) {
                        Ok(v) => check!(ctx, v as u128 == want, format!("usize::from(Seq)|{name}|value"), "{what}: usize::from(to_owned) = {v:#x} want {want:#x}"),
                        Err(pm) => check!(ctx, false, format!("usize::from(Seq)|{name}|panics"), "{what}: panicked {pm}"),
                    }
                    // an owned sequence that was longer before: dead bits beyond the end must not leak
                    if r % 3 == 0 {
                        let mut longer = codes.clone();
                        longer.extend(vec![maxc; 1 + r % 3]);
                        let mut o = mk::<C>(&longer);
                        if r % 2 == 0 { o.truncate(n) } else { o.remove(n..) }
                        match observe(|| usize::from(o)) {
                            Ok(v) => check!(ctx, v as u128 == want, format!("usize::from(Seq)|{name}|after-shrink"), "{what}: usize::from of a truncated sequence = {v:#x} want {want:#x}"),
                            Err(pm) => check!(ctx, false, format!("usize::from(Seq)|{name}|panics"), "{what}: panicked {pm}"),
                        }
                    }
                    ctx.cell_k(fp(&[name.as_bytes(), &[head as u8, n as u8]]), || format!("{name}/int/head{head}/n{n}"));
                    ctx.nontrivial(fp(&[name.as_bytes(), &codes, &[pad as u8]]));
                    if r == 0 && pad == 3 % noff {
                        ctx.sample(|| json!({"codec": name, "slice": a.text(&codes), "pad": pad, "head_bit": head, "integer": format!("{want:#x}")}));
                    }
                }
            }
        }
    });
    ctx.group(&format!("{name}/too-long-refused"), |ctx| {
        for n in [fit + 1, fit + 2, 2 * fit, 2 * fit + 1, 3 * fit + 1] {
            for pad in 0..noff {
                if ctx.lite && !ctx.mine(pad) || ctx.over() {
                    continue;
                }
                let codes = rand_codes(&mut ctx.rng, a, n);
                let p = Padded::<C>::new(&mut ctx.rng, pad, &codes, 1);
                ctx.eval();
                match observe(|| usize::try_from(p.slice())) {
                    Ok(Err(_)) => {}
                    Ok(Ok(v)) => check!(ctx, false, format!("usize::try_from(&slice)|{name}|truncates-long"), "{name} len {n} ({} bits) pad {pad}: returned Ok({v:#x}) instead of an error", n * bits),
                    Err(pm) => check!(ctx, false, format!("usize::try_from(&slice)|{name}|panics-long"), "{name} len {n} pad {pad}: panicked instead of returning an error: {pm}"),
                }
                cell!(ctx, "{name}/too-long/n={}", if n == fit + 1 { "fit+1" } else { ">fit+1" });
                ctx.nontrivial(fp(&[b"long", name.as_bytes(), &codes, &[pad as u8]]));
            }
        }
    });
}

/// exact-fit operands: the converted window is the last symbols of an allocation without spare words, and the
/// exported / re-imported image is the whole of such an allocation (whole-word lengths, aligned / unaligned starts)
fn exact_fit<C: CI>(ctx: &mut Ctx) {
    let a = C::alpha();
    let name = C::NAME;
    let bits = a.bits as usize;
    let fit = 64 / bits;
    ctx.group(&format!("{name}/exact-fit"), |ctx| {
        let cases = exact_fit_cases_for(ctx, a.bits);
        for (n, pad) in cases {
            if ctx.over() {
                break;
            }
            let _fit = exact_fit_mode();
            let codes = cover_codes(&mut ctx.rng, a, n);
            let p = Padded::<C>::new(&mut ctx.rng, pad, &codes, 0);
            let all = codes_of::<C>(&p.parent);
            let total = all.len();
            for k in [1usize, fit.min(total), (8 / bits).min(total)] {
                if k == 0 || k > total {
                    continue;
                }
                ctx.eval();
                let s = &p.parent[total - k..];
                let want = model::pack_u128(a.bits, &all[total - k..]);
                let what = format!("{name} last {k} symbols of an exact-capacity sequence of {total}");
                match observe(|| usize::try_from(s)) {
                    Ok(Ok(v)) => check!(ctx, v as u128 == want, format!("usize::try_from(&slice)|{name}|value"), "{what}: usize::try_from = {v:#x} want {want:#x}"),
                    other => check!(ctx, false, format!("usize::try_from(&slice)|{name}|refuses-fitting"), "{what}: {:?}", other),
                }
                if k * bits <= 8 {
                    match observe(|| u8::from(s)) {
                        Ok(v) => check!(ctx, v as u128 == want, format!("u8::from(&slice)|{name}|value"), "{what}: u8::from = {v:#x} want {want:#x}"),
                        Err(pm) => check!(ctx, false, format!("u8::from(&slice)|{name}|panics"), "{what}: panicked {pm}"),
                    }
                }
            }
            if total > fit {
                ctx.eval();
                let r = observe(|| usize::try_from(&p.parent[total - fit - 1..]).is_err());
                check!(ctx, r == Ok(true), format!("usize::try_from(&slice)|{name}|truncates-long"), "{name}: last {} symbols of an exact-capacity sequence: {:?}, want Err", fit + 1, r);
            }
            image_checks_n::<C>(ctx, &p.parent, &all, "exact-capacity", !ctx.lite && total <= 3 * fit);
            let win = p.slice().to_owned();
            image_checks_n::<C>(ctx, &win, &codes, "to_owned-of-allocation-tail", false);
            cell!(ctx, "{name}/exact-fit/{}/pad{}", len_class(a.bits, n), if pad == 0 { "0" } else if (pad * bits) % 64 == 0 { "word" } else { "unaligned" });
        }
    });
}

// ------------------------------------------------------------------ (b) k-mers <-> integers
fn digits(bits: u8, k: usize, v: u128) -> Vec<u8> {
    (0..k).map(|i| ((v >> (i * bits as usize)) & ((1u128 << bits) - 1)) as u8).collect()
}
fn expect_text(a: &model::Alphabet, d: &[u8]) -> Option<String> {
    d.iter().map(|&c| a.char_of_code(c).map(|b| b as char)).collect()
}

fn kmer_case<C: CI, const K: usize, S: KS>(ctx: &mut Ctx) {
    let a = C::alpha();
    let name = C::NAME;
    let kb = K * a.bits as usize;
    if ctx.lite && !ctx.mine_group(K + kb) {
        return;
    }
    ctx.group(&format!("{name}/kmer/K{K}/{}", S::NAME), |ctx| {
        let top: u128 = if kb == 128 { u128::MAX } else { (1u128 << kb) - 1 };
        let mut vals: Vec<u128> = Vec::new();
        if kb <= 16 && !ctx.lite {
            vals.extend(0..=top);
        } else {
            vals.extend([0, 1, top, top - 1, top >> 1, (top >> 1) + 1]);
            for j in 0..kb {
                vals.push(1u128 << j);
                vals.push((1u128 << j) - 1);
            }
            for _ in 0..ctx.n(200, 4000, 3) {
                let r = ((ctx.rng.next() as u128) << 64) | ctx.rng.next() as u128;
                vals.push(r & top);
            }
            if ctx.lite {
                vals.truncate(4);
                vals.push(((ctx.rng.next() as u128) << 64 | ctx.rng.next() as u128) & top);
            }
        }
        let mut n_exh = 0u64;
        for v in vals {
            if ctx.over() {
                break;
            }
            let d = digits(a.bits, K, v);
            let Some(text) = expect_text(a, &d) else { continue }; // a digit outside the code table: outside the statement
            ctx.eval();
            n_exh += 1;
            let k: Kmer<C, K, S> = Kmer { _p: PhantomData, bs: S::from_u128(v) };
            let shown = observe(|| k.to_string());
            check!(ctx, shown.as_deref() == Ok(text.as_str()), format!("Kmer::from(int)|{name}|{}|display", S::NAME), "{name} K={K} {}: integer {v:#x} displays {:?} want {text:?}", S::NAME, shown);
            // from symbols back to the integer: build from the sequence with those symbols
            let canon: Vec<u8> = d.iter().map(|&c| a.canon(c).unwrap()).collect();
            let seq = mk_codes::<C>(&canon);
            let back = observe(|| Kmer::<C, K, S>::try_from(&seq[..]));
            let want_int = model::pack_u128(a.bits, &canon);
            match back {
                Ok(Ok(k2)) => {
                    check!(ctx, k2.bs.to_u128() == want_int, format!("Kmer::try_from(&slice)|{name}|{}|integer", S::NAME), "{name} K={K} {}: k-mer of {text:?} has integer {:#x} want {want_int:#x}", S::NAME, k2.bs.to_u128());
                }
                other => check!(ctx, false, format!("Kmer::try_from(&slice)|{name}|{}|fails", S::NAME), "{name} K={K} {}: try_from({text:?}) = {:?}", S::NAME, other.map(|r| r.map(|k| k.bs.to_u128()))),
            }
            ctx.nontrivial(fp(&[name.as_bytes(), S::NAME.as_bytes(), &[K as u8], &v.to_le_bytes()]));
        }
        cell!(ctx, "{name}/K{K}/{}", S::NAME);
        ctx.count(if kb <= 16 { "kmer-types-enumerated-completely" } else { "kmer-types-sampled" }, 1);
        ctx.count("kmer-integers-decoded", n_exh);
    });
}

/// the usize-only API: From<usize>, usize::from(&kmer), Deref iteration
fn kmer_usize<C: CI, const K: usize, S: KS>(ctx: &mut Ctx) {
    let a = C::alpha();
    let name = C::NAME;
    let kb = K * a.bits as usize;
    if ctx.lite && !ctx.mine_group(K) {
        return;
    }
    ctx.group(&format!("{name}/kmer-usize-api/K{K}"), |ctx| {
        let top: u128 = if kb == 64 { u64::MAX as u128 } else { (1u128 << kb) - 1 };
        let mut vals: Vec<u128> = vec![0, 1, top, top >> 1];
        if kb <= 12 && !ctx.lite {
            vals = (0..=top).collect();
        } else {
            for _ in 0..ctx.n(100, 2000, 2) {
                vals.push(ctx.rng.next() as u128 & top);
            }
        }
        for v in vals {
            if ctx.over() {
                break;
            }
            let d = digits(a.bits, K, v);
            let Some(text) = expect_text(a, &d) else { continue };
            ctx.eval();
            let k = Kmer::<C, K>::from(v as usize);
            check!(ctx, usize::from(&k) as u128 == v, format!("usize::from(&Kmer)|{name}|value"), "{name} K={K}: usize::from(&Kmer::from({v:#x})) = {:#x}", usize::from(&k));
            let it = observe(|| k.iter().map(|s| s.to_bits()).collect::<Vec<u8>>());
            let canon: Vec<u8> = d.iter().map(|&c| a.canon(c).unwrap()).collect();
            check!(ctx, it.as_ref() == Ok(&canon), format!("Kmer::deref|{name}|symbols"), "{name} K={K}: Deref iteration of integer {v:#x} gives {:?} want {:?}", it, canon);
            check!(ctx, k.len() == K && k.to_string() == text, format!("Kmer::from(usize)|{name}|display"), "{name} K={K}: {v:#x} displays {:?} want {text:?}", k.to_string());
            let k64 = Kmer::<C, K, u64>::from(v as u64);
            let k64b = Kmer::<C, K, u64>::from(v as usize);
            check!(ctx, k64.to_string() == text && k64b.to_string() == text, format!("Kmer::from(u64)|{name}|display"), "{name} K={K}: u64 k-mer from {v:#x} displays {:?}/{:?}", k64.to_string(), k64b.to_string());
        }
        let _ = S::NAME;
    });
}

fn mk_codes<C: CI>(codes: &[u8]) -> Seq<C> {
    // collect from symbols (text codec digits need not be printable)
    codes.iter().map(|&c| C::try_from_bits(c).expect("canonical code")).collect()
}

// ------------------------------------------------------------------ (c) raw image
fn image_checks<C: CI>(ctx: &mut Ctx, s: &Seq<C>, m: &[u8], prov: &str) {
    image_checks_n::<C>(ctx, s, m, prov, true)
}
fn image_checks_n<C: CI>(ctx: &mut Ctx, s: &Seq<C>, m: &[u8], prov: &str, all_counts: bool) {
    let a = C::alpha();
    let name = C::NAME;
    let bits = a.bits as usize;
    let nb = m.len() * bits;
    ctx.eval();
    let raw: Vec<usize> = s.into_raw().to_vec();
    let what = format!("{name} {prov} {:?}", a.text_lossy(&m[..m.len().min(40)]));
    check!(ctx, raw.len() >= nb.div_ceil(64), format!("into_raw|{name}|{prov}|too-short"), "{what}: into_raw has {} words for {nb} bits", raw.len());
    check!(ctx, model::live_bits(&raw, nb) == model::pack_words(a.bits, m), format!("into_raw|{name}|{prov}|layout"),
        "{what}: image {:x?} is not the model packed from bit 0 of word 0 {:x?} (head offset {})", &raw[..raw.len().min(3)], &model::pack_words(a.bits, m)[..nb.div_ceil(64).min(3)], s.verif_layout().0);
    // rebuild with the true length
    match observe(|| Seq::<C>::from_raw(m.len(), &raw)) {
        Ok(Some(r)) => {
            check!(ctx, r.len() == m.len() && model::live_bits(r.into_raw(), nb) == model::pack_words(a.bits, m) && r == *s,
                format!("from_raw|{name}|{prov}|roundtrip"), "{what}: from_raw(len, into_raw()) is not an equal sequence");
        }
        Ok(None) => check!(ctx, false, format!("from_raw|{name}|{prov}|refuses-own-image"), "{what}: from_raw({}, into_raw()) = None", m.len()),
        Err(pm) => check!(ctx, false, format!("from_raw|{name}|{prov}|panics"), "{what}: from_raw panicked {pm}"),
    }
    // every requested count 0..cap+2
    let cap = raw.len() * 64 / bits;
    for n in 0..=cap + 2 {
        if ctx.lite && n % 5 != 0 && n + 3 < cap {
            continue;
        }
        if !all_counts && n % 97 != 0 && n + 3 < cap && !(n + 2 >= m.len() && n <= m.len() + 2) {
            continue; // long sequences: sampled counts plus the ones around len and cap
        }
        ctx.eval();
        let r = observe(|| Seq::<C>::from_raw(n, &raw));
        let fits = n * bits <= raw.len() * 64;
        let class = if n < m.len() { "<len" } else if n == m.len() { "=len" } else if fits { "<=cap" } else if n == cap + 1 { "cap+1" } else { "cap+2" };
        cell!(ctx, "{name}/from_raw/{class}");
        match r {
            Ok(Some(q)) => {
                check!(ctx, fits, format!("from_raw|{name}|accepts-too-many"), "{what}: from_raw({n}, {} words) = Some(len {}) but the image holds only {cap} symbols", raw.len(), q.len());
                if fits {
                    check!(ctx, q.len() == n, format!("from_raw|{name}|length"), "{what}: from_raw({n}) has len {}", q.len());
                    check!(ctx, model::live_bits(q.into_raw(), n * bits) == model::live_bits(&raw, n * bits), format!("from_raw|{name}|bits"), "{what}: from_raw({n}) does not reproduce the first {} bits of the image", n * bits);
                }
            }
            Ok(None) => check!(ctx, !fits, format!("from_raw|{name}|refuses-fitting"), "{what}: from_raw({n}, {} words) = None but {n} symbols fit", raw.len()),
            Err(pm) => check!(ctx, false, format!("from_raw|{name}|panics"), "{what}: from_raw({n}) panicked {pm}"),
        }
    }
    // counts whose bit length overflows the machine word do not fit either
    for far in [usize::MAX, usize::MAX / bits, (usize::MAX / bits).saturating_add(1), 1usize << 63, ((1usize << 63) / bits).saturating_mul(2), (1usize << 62) + 1] {
        if far <= cap {
            continue;
        }
        ctx.eval();
        cell!(ctx, "{name}/from_raw/far");
        match observe(|| Seq::<C>::from_raw(far, &raw)) {
            Ok(None) => {}
            Ok(Some(q)) => check!(ctx, false, format!("from_raw|{name}|accepts-too-many"), "{what}: from_raw({far:#x}, {} words) = Some(len {}) but the image holds only {cap} symbols", raw.len(), q.len()),
            Err(_) => {} // a refusal by panic (debug overflow check) still returns no sequence
        }
    }
    let head = s.verif_layout().0;
    cell!(ctx, "{name}/image/{prov}/head{head}/{}", len_class(a.bits, m.len()));
    ctx.nontrivial(fp(&[b"img", name.as_bytes(), prov.as_bytes(), m]));
}

fn images<C: CI>(ctx: &mut Ctx) {
    let a = C::alpha();
    let name = C::NAME;
    let pw = per_word(a.bits);
    let noff = n_offsets(a.bits);
    ctx.group(&format!("{name}/raw-image"), |ctx| {
        let mut lens = boundary_lengths(a.bits, 3);
        if ctx.lite {
            lens = vec![0, 1, pw - 1 + ctx.shard % 3];
        }
        for (li, n) in lens.into_iter().enumerate() {
            if ctx.over() {
                break;
            }
            let codes = cover_codes(&mut ctx.rng, a, n);
            let parsed = mk::<C>(&codes);
            image_checks::<C>(ctx, &parsed, &codes, "parsed");
            let collected: Seq<C> = mk_codes::<C>(&codes);
            image_checks::<C>(ctx, &collected, &codes, "collected");
            let pads: Vec<usize> = if ctx.lite { vec![1 + (li + ctx.shard) % (noff - 1).max(1)] } else if ctx.tier == Tier::Thorough { (0..noff).collect() } else { (0..noff).filter(|o| (o + li) % 4 == 1 % noff.min(4) || *o == 1).collect() };
            for pad in pads {
                let p = Padded::<C>::new(&mut ctx.rng, pad, &codes, 2);
                let o = p.slice().to_owned();
                image_checks::<C>(ctx, &o, &codes, "to_owned-of-offset-slice");
                let rev: Vec<u8> = codes.iter().rev().copied().collect();
                image_checks::<C>(ctx, &p.slice().to_rev(), &rev, "to_rev-of-offset-slice");
                if pad % 8 == 1 {
                    let v: Vec<Seq<C>> = p.parent.chunks((n / 2).max(1)).collect();
                    if let Some(c0) = v.get(1) {
                        let w = (n / 2).max(1);
                        let all = codes_of::<C>(&p.parent);
                        image_checks::<C>(ctx, c0, &all[w..2 * w], "chunks-collected");
                    }
                    let cl = o.clone();
                    image_checks::<C>(ctx, &cl, &codes, "clone");
                }
            }
            // edited
            let mut e = mk::<C>(&codes);
            let mut m = codes.clone();
            let extra = rand_codes(&mut ctx.rng, a, 3);
            let ep = Padded::<C>::new(&mut ctx.rng, 1, &extra, 1);
            e.insert(n / 2, ep.slice());
            let tail = m.split_off(n / 2);
            m.extend(&extra);
            m.extend(tail);
            e.prepend(ep.slice());
            let mut m2 = extra.clone();
            m2.extend(&m);
            m = m2;
            if m.len() > 2 {
                e.remove(1..2);
                m.remove(1);
                e.truncate(m.len() - 1);
                m.truncate(m.len() - 1);
            }
            e.push(C::try_from_bits(extra[0]).unwrap());
            m.push(extra[0]);
            image_checks::<C>(ctx, &e, &m, "edited");
            ctx.sample(|| json!({"codec": name, "len": n, "provenances": ["parsed", "collected", "to_owned-of-offset-slice", "to_rev-of-offset-slice", "chunks-collected", "clone", "edited"], "requested_counts": format!("0..={}", (n * a.bits as usize).div_ceil(64) * 64 / a.bits as usize + 2)}));
        }
    });
}

/// long sequences (4..33 words): word-at-a-time fast paths and reallocation states
fn images_long<C: CI>(ctx: &mut Ctx) {
    let a = C::alpha();
    let name = C::NAME;
    let noff = n_offsets(a.bits);
    if ctx.lite {
        return;
    }
    ctx.group(&format!("{name}/raw-image-long"), |ctx| {
        for (i, n) in long_lengths(a.bits).into_iter().enumerate() {
            let codes = rand_codes(&mut ctx.rng, a, n);
            let rev: Vec<u8> = codes.iter().rev().copied().collect();
            let parsed = mk::<C>(&codes);
            image_checks_n::<C>(ctx, &parsed, &codes, "parsed-long", false);
            image_checks_n::<C>(ctx, &parsed.to_rev(), &rev, "to_rev-of-owned-long", false);
            let mut inplace = parsed.clone();
            inplace.rev();
            image_checks_n::<C>(ctx, &inplace, &rev, "rev-in-place-long", false);
            let mut edited = inplace.clone();
            edited.push(C::try_from_bits(codes[0]).unwrap());
            let mut m2 = rev.clone();
            m2.push(codes[0]);
            image_checks_n::<C>(ctx, &edited, &m2, "rev-then-push-long", false);
            for pad in [1 % noff, (i * 7 + 2) % noff] {
                let p = Padded::<C>::new(&mut ctx.rng, pad, &codes, 2);
                image_checks_n::<C>(ctx, &p.slice().to_owned(), &codes, "to_owned-of-offset-slice-long", false);
                image_checks_n::<C>(ctx, &p.slice().to_rev(), &rev, "to_rev-of-offset-slice-long", false);
            }
        }
    });
}
/// 2^10 .. 2^16 symbols and 65 .. 2049 machine words, random and structured contents (long runs of one symbol,
/// periodic blocks): the image of a parsed / collected / copied sequence is the packed model, it rebuilds to an
/// equal sequence, a handful of counts around the length and the capacity behave, and one-word windows at block
/// seams convert to the positional sum
fn images_huge<C: CI>(ctx: &mut Ctx) {
    let a = C::alpha();
    let name = C::NAME;
    let bits = a.bits as usize;
    let fit = 64 / bits;
    let noff = n_offsets(a.bits);
    if ctx.lite {
        return;
    }
    ctx.group(&format!("{name}/raw-image-huge"), |ctx| {
        for (k, n) in huge_lengths(ctx, a.bits).into_iter().enumerate() {
            let codes = structured_codes(&mut ctx.rng, a, n, k);
            let want_words = model::pack_words(a.bits, &codes);
            let pad = [1 % noff, 0, (k * 3 + 2) % noff][k % 3];
            let p = Padded::<C>::new(&mut ctx.rng, pad, &codes, 2);
            let subjects: [(&str, Seq<C>); 3] = [("parsed-huge", mk::<C>(&codes)), ("collected-huge", mk_codes::<C>(&codes)), ("to_owned-of-offset-slice-huge", p.slice().to_owned())];
            for (prov, s) in subjects {
                ctx.eval();
                let what = format!("{name} {prov} len {n}");
                let raw: Vec<usize> = s.into_raw().to_vec();
                let live = model::live_bits(&raw, n * bits);
                let first_bad = live.iter().zip(&want_words).position(|(g, w)| g != w);
                check!(ctx, live.len() == want_words.len() && first_bad.is_none(), format!("into_raw|{name}|{prov}|layout"), "{what}: image differs from the packed model first at word {:?}: got {:x?} want {:x?}", first_bad, first_bad.map(|i| live[i]), first_bad.map(|i| want_words[i]));
                let cap = raw.len() * 64 / bits;
                for cnt in [n, 0, 1, n - 1, n + 1, cap, cap + 1, n / 2 + 1] {
                    let fits = cnt * bits <= raw.len() * 64;
                    match observe(|| Seq::<C>::from_raw(cnt, &raw)) {
                        Ok(Some(q)) => {
                            check!(ctx, fits && q.len() == cnt, format!("from_raw|{name}|length"), "{what}: from_raw({cnt}) -> len {}", q.len());
                            if fits && cnt <= n {
                                check!(ctx, q == s[..cnt] && model::live_bits(q.into_raw(), cnt * bits) == model::live_bits(&raw, cnt * bits), format!("from_raw|{name}|{prov}|roundtrip"), "{what}: from_raw({cnt}, image) is not equal to the first {cnt} symbols");
                            }
                        }
                        Ok(None) => check!(ctx, !fits, format!("from_raw|{name}|refuses-fitting"), "{what}: from_raw({cnt}) = None but it fits"),
                        Err(pm) => check!(ctx, false, format!("from_raw|{name}|panics"), "{what}: from_raw({cnt}) panicked {pm}"),
                    }
                }
                // one-word windows at block seams
                for st in [0usize, 1023, 1024, 4095, 4096, 8191, 16384, n / 2, n.saturating_sub(fit)] {
                    if st + fit > n {
                        continue;
                    }
                    let want = model::pack_u128(a.bits, &codes[st..st + fit]);
                    let got = observe(|| usize::try_from(&s[st..st + fit]).ok());
                    check!(ctx, got == Ok(Some(want as usize)), format!("usize::try_from(&slice)|{name}|value"), "{what}: symbols {st}..{} convert to {:x?}, want {want:#x}", st + fit, got);
                }
                cell!(ctx, "{name}/image-huge/{prov}/2^{}", usize::BITS - n.leading_zeros());
                ctx.nontrivial(fp(&[b"imgh", name.as_bytes(), prov.as_bytes(), &(n as u64).to_le_bytes(), &[k as u8]]));
            }
        }
    });
}
fn images_long_comp<C: CI + ComplementMut>(ctx: &mut Ctx) {
    let a = C::alpha();
    let name = C::NAME;
    if ctx.lite {
        return;
    }
    ctx.group(&format!("{name}/raw-image-long-complement"), |ctx| {
        for n in long_lengths(a.bits) {
            let codes = rand_codes(&mut ctx.rng, a, n);
            let comp: Vec<u8> = codes.iter().map(|&c| a.comp_code(c)).collect();
            let rc: Vec<u8> = comp.iter().rev().copied().collect();
            let parsed = mk::<C>(&codes);
            image_checks_n::<C>(ctx, &parsed.to_comp(), &comp, "to_comp-long", false);
            image_checks_n::<C>(ctx, &parsed.to_revcomp(), &rc, "to_revcomp-long", false);
            let mut i = parsed.clone();
            i.revcomp();
            image_checks_n::<C>(ctx, &i, &rc, "revcomp-in-place-long", false);
        }
    });
}

fn images_comp<C: CI + ComplementMut>(ctx: &mut Ctx) {
    let a = C::alpha();
    let name = C::NAME;
    let noff = n_offsets(a.bits);
    ctx.group(&format!("{name}/raw-image-complement"), |ctx| {
        let lens = if ctx.lite { vec![per_word(a.bits) + 1] } else { boundary_lengths(a.bits, 2) };
        for (li, n) in lens.into_iter().enumerate() {
            if ctx.over() {
                break;
            }
            let codes = rand_codes(&mut ctx.rng, a, n);
            for pad in [0usize, 1 % noff, (3 + li) % noff] {
                let p = Padded::<C>::new(&mut ctx.rng, pad, &codes, 2);
                let comp: Vec<u8> = codes.iter().map(|&c| a.comp_code(c)).collect();
                let rc: Vec<u8> = comp.iter().rev().copied().collect();
                image_checks::<C>(ctx, &p.slice().to_comp(), &comp, "to_comp-of-offset-slice");
                image_checks::<C>(ctx, &p.slice().to_revcomp(), &rc, "to_revcomp-of-offset-slice");
            }
        }
    });
}

/// bitwise ops keep the layout too (IUPAC sets; the other codecs' results are judged as raw bits)
fn images_bitops(ctx: &mut Ctx) {
    let a = model::iupac();
    ctx.group("iupac/raw-image-bitops", |ctx| {
        let lens = if ctx.lite { vec![17] } else { boundary_lengths(4, 3) };
        for n in lens {
            if ctx.over() {
                break;
            }
            let x = rand_codes(&mut ctx.rng, a, n);
            let y = rand_codes(&mut ctx.rng, a, n);
            let pads: Vec<(usize, usize)> = if ctx.lite { vec![(1, 5)] } else { vec![(0, 0), (1, 0), (0, 3), (5, 9), (15, 1), (7, 7)] };
            for (p1, p2) in pads {
                let a1 = Padded::<Iupac>::new(&mut ctx.rng, p1, &x, 1);
                let a2 = Padded::<Iupac>::new(&mut ctx.rng, p2, &y, 1);
                let or: Vec<u8> = x.iter().zip(&y).map(|(p, q)| p | q).collect();
                let and: Vec<u8> = x.iter().zip(&y).map(|(p, q)| p & q).collect();
                image_checks::<Iupac>(ctx, &(a1.slice() | a2.slice()), &or, "slice|slice");
                image_checks::<Iupac>(ctx, &(a1.slice() & a2.slice()), &and, "slice&slice");
                image_checks::<Iupac>(ctx, &a1.slice().to_owned().bit_or(a2.slice().to_owned()), &or, "bit_or");
                image_checks::<Iupac>(ctx, &a1.slice().to_owned().bit_and(a2.slice().to_owned()), &and, "bit_and");
            }
        }
    });
}

fn readme_table(ctx: &mut Ctx) {
    ctx.group("dna/readme-table", |ctx| {
        let want = ["AAAAA", "CAAAA", "GAAAA", "TAAAA", "ACAAA", "CCAAA", "GCAAA", "TCAAA", "AGAAA", "CGAAA", "GGAAA", "TGAAA", "ATAAA", "CTAAA", "GTAAA", "TTAAA"];
        for (i, w) in want.iter().enumerate() {
            ctx.eval();
            let k = Kmer::<Dna, 5>::from(i);
            check!(ctx, k.to_string() == *w, "Kmer::from(usize)|dna|readme-table", "Kmer::<Dna,5>::from({i}) = {} want {w}", k.to_string());
        }
        cell!(ctx, "dna/readme-table");
    });
}

fn main() {
    run_main("C04", |ctx| {
        ctx.first_use_race(3, |t| {
            let d: Seq<Dna> = "ACGTTGCAACGTACGTACGTACGTACGTACGTTTGAC".try_into().unwrap();
            let i: Seq<Iupac> = "ACGTRYSWKMBDHVN-ACGT".try_into().unwrap();
            let m: Seq<Amino> = "MAGICLIFEQRSTVWY*".try_into().unwrap();
            let k: Kmer<Dna, 8> = Kmer::try_from(&d[t..t + 8]).unwrap();
            (
                usize::try_from(&d[t..t + 30]).ok(), usize::try_from(&i[t..t + 16]).ok(), usize::try_from(&m[t..t + 10]).ok(), usize::try_from(&d[..]).is_err(),
                usize::from(&k), Kmer::<Dna, 8>::from(0x1b2d + t).to_string(),
                d.into_raw().to_vec(), Seq::<Dna>::from_raw(20 + t, d.into_raw()).map(|s| s.to_string()), Seq::<Iupac>::from_raw(40, i.into_raw()).is_none(),
            )
        });
        for_each_codec!(exact_fit, ctx);
        for_each_codec!(ints, ctx);
        for_each_codec!(images, ctx);
        for_each_comp_codec!(images_comp, ctx);
        for_each_codec!(images_long, ctx);
        for_each_codec!(images_huge, ctx);
        for_each_comp_codec!(images_long_comp, ctx);
        images_bitops(ctx);
        readme_table(ctx);
        if ctx.lite {
            for_each_k_small!(kmer_case, usize, ctx);
            for_each_k_small!(kmer_case, u128, ctx);
            for_each_k_small128!(kmer_case, ctx);
            for_each_k_small!(kmer_usize, usize, ctx);
        } else {
            for_each_k64!(kmer_case, usize, ctx);
            for_each_k64!(kmer_case, u64, ctx);
            for_each_k128!(kmer_case, ctx);
            for_each_k64!(kmer_usize, usize, ctx);
        }
        ctx.note("rule", json!("(a) every slice length with n*BITS<=64 at every achievable bit offset, contents random / all-max-code / single-max-symbol: usize::try_from(&slice), u8::from(&slice) when it fits a byte, usize::from(owned) incl. owned sequences shrunk by truncate/remove; longer slices must give Err. (b) every (codec,K,storage) instantiated: ALL integers below 2^(K*BITS) when K*BITS<=16, else boundary values (0,1,2^j,2^j-1,max) + random: display, Deref symbols, usize::from(&kmer), integer of the k-mer built from those symbols; README table verbatim. (c) owned sequences of every length class produced by parse, collect, to_owned/to_rev/to_comp/to_revcomp of offset slices, chunks collected, clone, |, &, bit_or, bit_and, edits: live bits of into_raw == model packed from bit 0; from_raw(len, image) equal; every requested count 0..cap+2 and counts whose bit length overflows (usize::MAX, usize::MAX/BITS+1, 2^63, ...); long sequences of 4..33 machine words (parse, rev in place and copying, rev-then-push, offset copies, complements) with sampled counts. Distinct = (codec, content, pad) / (codec,K,S,integer) / (codec, provenance, content)."));
        ctx.note("assumptions", json!(["the empty sequence is outside the integer-conversion statement ('non-empty')", "rebuilt sequences longer than the original are compared at bit level only (bits beyond the original length are arbitrary)", "Seq::from(&BitSlice)/Seq::from(BitVec) ('unstable' escape hatches) are not among the listed provenances"]));
    });
}
