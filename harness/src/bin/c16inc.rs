//! C16 accelerator — bio-seq-derive's `seqarray.rs` mounted by #[path]; `dna_seq` / `iupac_seq`
//! are called directly on LitStr values (proc-macro2 works outside a macro context) for a large
//! number of strings and compared bit for bit with the runtime parser.  If the internal
//! functions are renamed this binary stops compiling: the stage is then reported as unavailable
//! (neither violation nor pass) and the verdict rests on the generated programs.
#![allow(dead_code)]

#[path = "../../repo/bio-seq-derive/src/seqarray.rs"]
mod seqarray;

use bio_seq::prelude::*;
use bsv::*;
use proc_macro2::Span;
use serde_json::json;
use syn::LitStr;

fn run<C: CI>(ctx: &mut Ctx, mac: &'static str, f: fn(&LitStr) -> Result<(usize, Vec<u8>), syn::Error>, extra_ok: &'static [u8]) {
    let a = C::alpha();
    ctx.group(&format!("{mac}/direct"), |ctx| {
        let chars = a.chars();
        let bad: Vec<u8> = a.bad_bytes().into_iter().filter(|b| *b < 0x80 && !extra_ok.contains(b)).collect();
        let lens = boundary_lengths(a.bits, 4);
        for r in 0..ctx.n(20_000, 1_000_000, 10) {
            if ctx.over() {
                break;
            }
            let n = if r < lens.len() { lens[r] } else if r % 50 == 0 { 200 + ctx.rng.below(300) } else { ctx.rng.below(5 * per_word(a.bits)) };
            let mut s: String = (0..n).map(|_| *ctx.rng.pick(&chars) as char).collect();
            let invalid = r % 3 == 2 && n > 0;
            let mut class = "valid";
            if invalid {
                let pos = match r % 4 { 0 => 0, 1 => n - 1, _ => ctx.rng.below(n) };
                let ch: char = match r % 5 {
                    0 => s.as_bytes()[pos].to_ascii_lowercase() as char,
                    1 => *ctx.rng.pick(&['N', 'U', ' ', '\t', '\n', '0', '\0']),
                    2 => char::from_u32(0x100 + *ctx.rng.pick(&chars) as u32).unwrap(),
                    _ => *ctx.rng.pick(&bad) as char,
                };
                let mut v: Vec<char> = s.chars().collect();
                v[pos] = ch;
                s = v.into_iter().collect();
                class = "one-char-replaced";
            }
            ctx.eval();
            let ok_for_macro = s.bytes().all(|b| a.is_char(b) || extra_ok.contains(&b));
            let got = observe(|| f(&LitStr::new(&s, Span::call_site())));
            match got {
                Ok(Ok((len, bits))) => {
                    check!(ctx, ok_for_macro, format!("{mac}_seq|{}|accepts-invalid", C::NAME), "{mac}_seq accepts {s:?}");
                    if ok_for_macro {
                        // compare with the runtime parser bit for bit (X is the macro's alias of '-')
                        let rt_text: String = s.chars().map(|c| if extra_ok.contains(&(c as u8)) { '-' } else { c }).collect();
                        match Seq::<C>::try_from(rt_text.as_str()) {
                            Ok(p) => {
                                let nb = p.len() * a.bits as usize;
                                let raw = p.into_raw();
                                let want: Vec<u8> = (0..nb).map(|i| ((raw[i / 64] >> (i % 64)) & 1) as u8).collect();
                                check!(ctx, len == p.len() && bits == want, format!("{mac}_seq|{}|bits-differ-from-runtime-parse", C::NAME), "{mac}_seq({s:?}) gives len {len} / bits differing from the runtime parse (first difference at bit {:?})", bits.iter().zip(&want).position(|(x, y)| x != y));
                            }
                            Err(e) => check!(ctx, false, format!("{mac}_seq|{}|runtime-rejects", C::NAME), "runtime parser rejects {rt_text:?}: {e:?}"),
                        }
                    }
                }
                Ok(Err(_)) => check!(ctx, !ok_for_macro, format!("{mac}_seq|{}|rejects-valid", C::NAME), "{mac}_seq rejects {s:?}"),
                Err(pm) => check!(ctx, false, format!("{mac}_seq|{}|panics", C::NAME), "{mac}_seq({s:?}) panicked {pm}"),
            }
            cell!(ctx, "{mac}/inc/{class}/{}", len_class(a.bits, n));
            if !ctx.lite {
                ctx.nontrivial(fp(&[mac.as_bytes(), s.as_bytes()]));
            }
            if r < 2 {
                ctx.sample(|| json!({"function": format!("{mac}_seq"), "input": &s[..s.len().min(60)], "class": class}));
            }
        }
    });
}

fn main() {
    run_main("C16", |ctx| {
        run::<Dna>(ctx, "dna", seqarray::dna_seq, b"");
        run::<Iupac>(ctx, "iupac", seqarray::iupac_seq, b"X");
    });
}
