//! C01 — text <-> packed sequence round trip is lossless; bad input is rejected exactly.
//! Oracle: alphabet tables of model.rs; parse succeeds iff every byte is a symbol character,
//! one symbol per byte in order; otherwise Err(UnrecognisedBase(first offending byte)).

use bio_seq::prelude::*;
use bsv::*;
use serde_json::json;
use std::str::FromStr;

/// all parsing entry points that can take these bytes
/// `pick`: under reduced budgets only two entry points per input are run (rotating)
fn parse_all<C: CI>(v: &[u8], pick: Option<usize>) -> Vec<(&'static str, Result<Seq<C>, ParseBioError>)> {
    let mut r: Vec<(&'static str, Result<Seq<C>, ParseBioError>)> = Vec::new();
    let utf8 = std::str::from_utf8(v).ok();
    let n = if utf8.is_some() { 7 } else { 2 };
    let want = |k: usize| match pick {
        None => true,
        Some(p) => n <= 2 || k == p % n || k == (p + 3) % n,
    };
    if want(0) {
        r.push(("&[u8]", Seq::<C>::try_from(v)));
    }
    if want(1) {
        r.push(("Vec<u8>", Seq::<C>::try_from(v.to_vec())));
    }
    if let Some(s) = utf8 {
        if want(2) {
            r.push(("&str", Seq::<C>::try_from(s)));
        }
        if want(3) {
            r.push(("String", Seq::<C>::try_from(s.to_string())));
        }
        if want(4) {
            let owned = s.to_string();
            r.push(("&String", Seq::<C>::try_from(&owned)));
        }
        if want(5) {
            r.push(("FromStr", Seq::<C>::from_str(s)));
        }
        if want(6) {
            r.push(("str::parse", s.parse::<Seq<C>>()));
        }
    }
    r
}

fn judge<C: CI>(ctx: &mut Ctx, v: &[u8], class: &str) {
    let a = C::alpha();
    let name = C::NAME;
    let first_bad = v.iter().position(|b| !a.is_char(*b));
    let want_codes: Option<Vec<u8>> =
        if first_bad.is_none() { Some(v.iter().map(|b| a.code_of_char(*b).unwrap()).collect()) } else { None };
    let pick = if ctx.lite { Some(ctx.evals as usize) } else { None };
    let results = match observe(|| parse_all::<C>(v, pick)) {
        Ok(r) => r,
        Err(p) => {
            check!(ctx, false, format!("parse|{name}|panic"), "parsing {:?} panicked: {p}", String::from_utf8_lossy(v));
            return;
        }
    };
    let lc = len_class(a.bits, v.len());
    for (ep, res) in results {
        ctx.eval();
        cell!(ctx, "{name}/{ep}/{class}/{lc}");
        match (&want_codes, res) {
            (Some(codes), Ok(seq)) => {
                let n = codes.len();
                check!(ctx, seq.len() == n, format!("parse|{name}|length"), "{ep}: parsed {:?} has len {} want {n}", String::from_utf8_lossy(v), seq.len());
                check!(ctx, seq.is_empty() == (n == 0), format!("is_empty|{name}|wrong"), "{ep}: is_empty wrong for len {n}");
                let got = codes_of::<C>(&seq);
                check!(ctx, &got == codes, format!("parse|{name}|symbols"), "{ep}: parsed {:?} gives codes {:?} want {:?}", String::from_utf8_lossy(v), got, codes);
                let text = a.text(codes);
                let d1 = seq.to_string();
                check!(ctx, d1 == text, format!("display|{name}|to_string"), "{ep}: to_string {:?} want {:?}", d1, text);
                check!(ctx, String::from(&seq) == text, format!("display|{name}|String::from(&Seq)"), "{ep}: String::from(&seq) != {:?}", text);
                check!(ctx, format!("{}", &seq[..]) == text, format!("display|{name}|slice-format"), "{ep}: format!(slice) != {:?}", text);
                // positional accessors at the interesting positions
                let mut idx: Vec<usize> = vec![0, n.saturating_sub(1), n / 2];
                let pw = per_word(a.bits);
                idx.extend([pw.saturating_sub(1), pw, pw + 1, 2 * pw, 2 * pw - 1]);
                for i in idx {
                    if i < n {
                        check!(ctx, seq.nth(i).to_bits() == codes[i], format!("nth|{name}|symbol"), "{ep}: nth({i}) wrong in {:?}", text);
                        check!(ctx, seq.get(i).map(|s| s.to_bits()) == Some(codes[i]), format!("get|{name}|symbol"), "{ep}: get({i}) wrong in {:?}", text);
                    }
                }
                // display -> parse -> display is the identity
                match Seq::<C>::try_from(d1.as_str()) {
                    Ok(s2) => {
                        check!(ctx, s2.to_string() == d1, format!("display|{name}|reparse-identity"), "{ep}: display->parse->display changed {:?}", d1);
                        check!(ctx, s2 == seq, format!("parse|{name}|reparse-equal"), "{ep}: reparsed display not equal");
                    }
                    Err(e) => check!(ctx, false, format!("parse|{name}|reparse-fails"), "{ep}: display {:?} does not parse: {:?}", d1, e),
                }
                check!(ctx, String::from(seq) == text, format!("display|{name}|String::from(Seq)"), "{ep}: String::from(seq) != {:?}", text);
            }
            (None, Err(e)) => {
                let fb = v[first_bad.unwrap()];
                check!(ctx, e == ParseBioError::UnrecognisedBase(fb), format!("parse|{name}|wrong-error"),
                    "{ep}: parsing {:?} reports {:?}, first offending byte is {fb:#04x} at {}", String::from_utf8_lossy(v), e, first_bad.unwrap());
            }
            (Some(_), Err(e)) => check!(ctx, false, format!("parse|{name}|rejects-valid"), "{ep}: valid {:?} rejected: {:?}", String::from_utf8_lossy(v), e),
            (None, Ok(s)) => check!(ctx, false, format!("parse|{name}|accepts-invalid"),
                "{ep}: {:?} (bytes {:02x?}) accepted as {:?}; byte {:#04x} at {} is not a symbol character", String::from_utf8_lossy(v), &v[..v.len().min(12)], s.to_string(), v[first_bad.unwrap()], first_bad.unwrap()),
        }
    }
    if !ctx.lite {
        ctx.nontrivial(fp(&[name.as_bytes(), v]));
    }
}

fn valid_text(rng: &mut Rng, a: &model::Alphabet, n: usize) -> Vec<u8> {
    // all characters that parse, including the alternative ones of the 1-bit codec
    let chars = a.chars();
    let start = rng.below(chars.len());
    (0..n).map(|i| if i < chars.len() { chars[(start + i) % chars.len()] } else { *rng.pick(&chars) }).collect()
}

fn run<C: CI>(ctx: &mut Ctx) {
    let a = C::alpha();
    let name = C::NAME;
    let bad = a.bad_bytes();
    let chars = a.chars();

    ctx.group(&format!("{name}/all-1-byte"), |ctx| {
        let stride = ctx.n(1, 1, 5);
        judge::<C>(ctx, &[], "valid");
        for b in 0..=255u8 {
            if ctx.over() {
                break;
            }
            if (a.is_char(b) && (!ctx.lite || ctx.mine(b as usize))) || b as usize % stride == ctx.shard % stride {
                judge::<C>(ctx, &[b], if a.is_char(b) { "valid" } else if b < 0x80 { "bad-ascii" } else { "bad-byte>=0x80" });
            }
        }
        ctx.sample(|| json!({"codec": name, "inputs": "every 1-byte string and the empty string, through every entry point"}));
    });

    ctx.group(&format!("{name}/all-2-byte-with-one-valid"), |ctx| {
        let stride = ctx.n(1, 1, 211);
        let mut k = 0usize;
        for &c in &chars {
            for b in 0..=255u8 {
                k += 1;
                if k % stride != 0 || ctx.over() {
                    continue;
                }
                let cls = if a.is_char(b) { "valid" } else { "bad-last" };
                judge::<C>(ctx, &[c, b], cls);
                let cls = if a.is_char(b) { "valid" } else { "bad-first" };
                judge::<C>(ctx, &[b, c], cls);
            }
        }
        ctx.sample(|| json!({"codec": name, "inputs": "(valid,b) and (b,valid) for every symbol character and every byte b"}));
    });

    ctx.group(&format!("{name}/valid-lengths"), |ctx| {
        let mut lens = boundary_lengths(a.bits, 4);
        if !ctx.lite {
            lens.extend(long_lengths(a.bits));
        }
        let extra = ctx.n(1500, 40000, 4);
        let maxlen = if ctx.lite { per_word(a.bits) * 5 / 4 + 2 } else { 5 * per_word(a.bits) };
        for _ in 0..extra {
            lens.push(ctx.rng.below(maxlen));
        }
        if ctx.reduced() {
            let keep: Vec<usize> = lens.iter().copied().filter(|l| *l <= maxlen).enumerate().filter(|(i, _)| ctx.mine(*i)).map(|(_, l)| l).take(6).collect();
            lens = keep;
        }
        for n in lens {
            if ctx.over() {
                break;
            }
            let v = valid_text(&mut ctx.rng, a, n);
            judge::<C>(ctx, &v, "valid");
            ctx.sample(|| json!({"codec": name, "valid_text": String::from_utf8_lossy(&v[..v.len().min(80)]), "len": n}));
        }
    });

    ctx.group(&format!("{name}/exact-fit"), |ctx| {
        // input buffers and parsed sequences without spare room: texts of whole-word lengths held in boxed byte
        // slices (the allocation ends with the last byte), also with one bad byte at the last / first position;
        // display of exact-capacity sequences and of windows that are the tail of such an allocation
        let cases = exact_fit_cases_for(ctx, a.bits);
        for (n, pad) in cases {
            if ctx.over() {
                break;
            }
            let v: Box<[u8]> = valid_text(&mut ctx.rng, a, n + pad).into_boxed_slice();
            judge::<C>(ctx, &v, "valid-exact-fit");
            if !v.is_empty() && !bad.is_empty() {
                let mut w = v.clone();
                let at = if pad % 2 == 0 { w.len() - 1 } else { 0 };
                w[at] = *ctx.rng.pick(&bad.iter().copied().filter(|b| *b < 0x80).collect::<Vec<u8>>());
                judge::<C>(ctx, &w, "bad-byte-exact-fit");
            }
            // display of exact-fit values
            let codes: Vec<u8> = v.iter().map(|b| a.code_of_char(*b).unwrap()).collect();
            let _fit = exact_fit_mode();
            let p = Padded::<C>::new(&mut ctx.rng, pad, &codes[pad..], 0);
            ctx.eval();
            let r = observe(|| (p.parent.to_string(), p.slice().to_string(), String::from(p.slice()), format!("{}", &p.parent[p.parent.len()..])));
            let want = a.text(&codes[pad..]);
            check!(ctx, r.as_ref().map(|r| (r.1 == want, r.2 == want, r.0.ends_with(&want) && r.0.len() == pad + n, r.3.is_empty())) == Ok((true, true, true, true)), format!("display|{name}|exact-fit"), "{name}: display of an exact-capacity sequence / its tail window: {:?}, want the window to read {:?}", r, want);
            cell!(ctx, "{name}/exact-fit/{}/pad{}", len_class(a.bits, n), if pad == 0 { "0" } else if (pad * a.bits as usize) % 64 == 0 { "word" } else { "unaligned" });
        }
    });

    ctx.group(&format!("{name}/huge"), |ctx| {
        // texts of 2^10 .. 2^16 symbols and 65 .. 2049 machine words, random and structured contents (long runs of
        // one symbol, periodic blocks, half-alphabet blocks): block-wise parsers and run-length fast paths
        for (k, n) in huge_lengths(ctx, a.bits).into_iter().enumerate() {
            let codes = structured_codes(&mut ctx.rng, a, n, k);
            let v: Vec<u8> = a.text(&codes).into_bytes();
            judge::<C>(ctx, &v, "valid-huge");
            if k % 3 == 0 && !bad.is_empty() {
                // one offending byte in the last block / at a block seam
                let mut w = v.clone();
                let at = match k % 4 { 0 => n - 1, 1 => n - n % 4096 - usize::from(n % 4096 == 0).min(n), 2 => (n / 4096) * 4096 / 2, _ => n / 2 + 1 }.min(n - 1);
                w[at] = *ctx.rng.pick(&bad);
                judge::<C>(ctx, &w, "bad-byte-huge");
            }
        }
    });

    ctx.group(&format!("{name}/injected-bad-bytes"), |ctx| {
        let rounds = ctx.n(3000, 80000, 6);
        let lens = boundary_lengths(a.bits, 3);
        for r in 0..rounds {
            if ctx.over() {
                break;
            }
            let n = if r < lens.len() && !ctx.reduced() { lens[r].max(1) } else if ctx.lite { 1 + ctx.rng.below(per_word(a.bits) + 3) } else { 1 + ctx.rng.below(4 * per_word(a.bits)) };
            let mut v = valid_text(&mut ctx.rng, a, n);
            let k = 1 + ctx.rng.below(3);
            let pw = per_word(a.bits);
            let mut cls = "bad-mid";
            for j in 0..k {
                let pos = match (r + j) % 6 {
                    0 => { cls = "bad-first"; 0 }
                    1 => { cls = "bad-last"; n - 1 }
                    2 => (pw.saturating_sub(1)).min(n - 1),
                    3 => pw.min(n - 1),
                    _ => ctx.rng.below(n),
                };
                // offending bytes from all 256 values minus the alphabet, with lower-case twins and
                // near-miss letters over-represented
                let b = match ctx.rng.below(4) {
                    0 => {
                        let t = v[pos].to_ascii_lowercase();
                        if a.is_char(t) { *ctx.rng.pick(&bad) } else { t }
                    }
                    1 => *ctx.rng.pick(&[b'N', b'U', b'X', b'n', b' ', b'\n', b'\t', 0u8, 0x7f, b'0', b'@', b'[', b'`', b'{']),
                    _ => *ctx.rng.pick(&bad),
                };
                if !a.is_char(b) {
                    v[pos] = b;
                }
            }
            if v.iter().all(|b| a.is_char(*b)) {
                v[0] = bad[0];
                cls = "bad-first";
            }
            judge::<C>(ctx, &v, cls);
            if r < 2 {
                ctx.sample(|| json!({"codec": name, "input_bytes": format!("{:02x?}", &v[..v.len().min(40)]), "first_bad_at": v.iter().position(|b| !a.is_char(*b))}));
            }
        }
    });

    ctx.group(&format!("{name}/non-ascii-utf8"), |ctx| {
        // multi-byte characters: the report must be the first *byte* of the character; characters
        // whose low code-point byte is a symbol character must not be mistaken for that symbol
        let rounds = ctx.n(1000, 30000, 4);
        for r in 0..rounds {
            if ctx.over() {
                break;
            }
            let n = 1 + ctx.rng.below(if ctx.lite { per_word(a.bits) / 2 + 2 } else { 2 * per_word(a.bits) });
            let t = valid_text(&mut ctx.rng, a, n);
            let mut s = String::new();
            let pos = match r % 3 { 0 => 0, 1 => n - 1, _ => ctx.rng.below(n) };
            let only = r % 5 == 4;
            for (i, &c) in t.iter().enumerate() {
                if i == pos || only {
                    let base = *ctx.rng.pick(&chars) as u32;
                    let cp = match ctx.rng.below(5) {
                        0 => 0x100 + base,           // 2-byte, low byte is a symbol character
                        1 => 0x4100 + base,          // 3-byte
                        2 => 0x1F600 + ctx.rng.below(64) as u32, // 4-byte
                        3 => 0xE9,                   // e-acute
                        _ => 0x80 + ctx.rng.below(0x700) as u32,
                    };
                    s.push(char::from_u32(cp).unwrap_or('\u{e9}'));
                } else {
                    s.push(c as char);
                }
            }
            // every other time an ordinary (ASCII) offending byte too, before or after the multi-byte
            // character: the report must still be the FIRST offending byte of the whole string
            if r % 2 == 1 {
                let asc: Vec<u8> = a.bad_bytes().into_iter().filter(|b| *b < 0x80 && *b >= 0x20).collect();
                let b = *ctx.rng.pick(&asc) as char;
                let mut v: Vec<char> = s.chars().collect();
                let at = ctx.rng.below(v.len());
                if (v[at] as u32) < 0x80 {
                    v[at] = b;
                } else {
                    v.insert(if ctx.rng.chance(1, 2) { 0 } else { v.len() }, b);
                }
                s = v.into_iter().collect();
            }
            judge::<C>(ctx, s.as_bytes(), "non-ascii");
            if r < 2 {
                ctx.sample(|| json!({"codec": name, "input": s, "bytes": format!("{:02x?}", s.as_bytes())}));
            }
        }
    });

    ctx.group(&format!("{name}/from-symbols"), |ctx| {
        let rounds = ctx.n(400, 10000, 4);
        let lens = boundary_lengths(a.bits, 3);
        for r in 0..rounds {
            if ctx.over() {
                break;
            }
            let n = if r < lens.len() && !ctx.reduced() { lens[r] } else if ctx.lite { ctx.rng.below(per_word(a.bits) + 3) } else { ctx.rng.below(4 * per_word(a.bits)) };
            let codes = cover_codes(&mut ctx.rng, a, n);
            let syms: Vec<C> = codes.iter().map(|&c| C::try_from_bits(c).expect("model code decodes")).collect();
            let text = a.text(&codes);
            let reference = mk::<C>(&codes);
            ctx.eval();
            cell!(ctx, "{name}/from-symbols/{}", len_class(a.bits, n));
            let collected: Seq<C> = syms.iter().copied().collect();
            check!(ctx, collected.to_string() == text && collected == reference && collected.len() == n, format!("FromIterator|{name}|content"), "collect of {:?} gives {:?}", text, collected.to_string());
            let from_vec = Seq::<C>::from(&syms);
            check!(ctx, from_vec.to_string() == text && from_vec == reference, format!("From<&Vec>|{name}|content"), "From<&Vec> of {:?} gives {:?}", text, from_vec.to_string());
            let mut ext = Seq::<C>::new();
            let cut = if n > 0 { ctx.rng.below(n + 1) } else { 0 };
            ext.extend(syms[..cut].iter().copied());
            Extend::extend(&mut ext, syms[cut..].iter().copied());
            check!(ctx, ext.to_string() == text && ext == reference, format!("extend|{name}|content"), "extend of {:?} gives {:?}", text, ext.to_string());
            // the same symbols through iterators with unusual size hints
            if (r % 4 == 0 && !ctx.lite) || (ctx.lite && r == 0) {
                iterator_shapes(&syms, |shape, it| {
                    let got = observe(|| it.collect::<Seq<C>>());
                    check!(ctx, got.as_ref().map(|g| g.to_string() == text && g.len() == n).unwrap_or(false), format!("FromIterator|{name}|{shape}"), "collect of {:?} ({n} symbols) from an iterator with size hint shape {shape}: {:?}", &text[..text.len().min(40)], got.map(|g| g.to_string()));
                });
                iterator_shapes(&syms, |shape, it| {
                    let mut e = mk::<C>(&codes[..n.min(3)]);
                    let got = observe(|| { e.extend(it); e });
                    let want = format!("{}{}", a.text(&codes[..n.min(3)]), text);
                    check!(ctx, got.as_ref().map(|g| g.to_string() == want).unwrap_or(false), format!("extend|{name}|{shape}"), "extend with size hint shape {shape}: {:?} want {:?}", got.map(|g| g.to_string()), &want[..want.len().min(50)]);
                });
                let ok_iter = syms.iter().map(|s| Ok::<C, ParseBioError>(*s));
                let got: Result<Seq<C>, ParseBioError> = ok_iter.collect();
                check!(ctx, got.as_ref().map(|g| g.to_string() == text).unwrap_or(false), format!("FromIterator|{name}|through-Result"), "collect through Result differs");
                cell!(ctx, "{name}/from-symbols/iterator-shapes");
            }
            let mut pushed = Seq::<C>::with_capacity(n / 2);
            for s in &syms {
                pushed.push(*s);
            }
            check!(ctx, pushed.to_string() == text && pushed == reference, format!("push|{name}|content"), "push of {:?} gives {:?}", text, pushed.to_string());
            if !ctx.lite {
                ctx.nontrivial(fp(&[b"sym", name.as_bytes(), &codes]));
            }
        }
    });
}

fn main() {
    run_main("C01", |ctx| {
        ctx.first_use_race(3, |t| {
            let texts = ["ACGTTGCAACGTACGTACGTACGTACGTACGTTTGAC", "ACGTNNRYKM-", "MAGICLIFE*"];
            (
                Seq::<Dna>::try_from(texts[t % 3]).map(|s| s.to_string()).map_err(|e| format!("{e:?}")),
                Seq::<Iupac>::try_from(texts[(t + 1) % 3]).map(|s| s.to_string()).map_err(|e| format!("{e:?}")),
                Seq::<Amino>::try_from(texts[(t + 2) % 3]).map(|s| s.to_string()).map_err(|e| format!("{e:?}")),
                Seq::<Text>::try_from("ACGTN").map(|s| s.to_string()).map_err(|e| format!("{e:?}")),
                Seq::<MDna>::try_from("ACgtNn-").map(|s| s.to_string()).map_err(|e| format!("{e:?}")),
                Seq::<MIupac>::try_from("ACgtRyNn-.").map(|s| s.to_string()).map_err(|e| format!("{e:?}")),
                Seq::<Degen>::try_from("SWSWSSWW").map(|s| s.to_string()).map_err(|e| format!("{e:?}")),
                Seq::<Dna>::try_from(&b"ACG\xffT"[..]).map(|s| s.to_string()).map_err(|e| format!("{e:?}")),
            )
        });
        for_each_codec!(run, ctx);
        ctx.note("rule", json!("per codec: every 1-byte string; every 2-byte string with one symbol character; valid strings at all word-boundary length classes plus random lengths (<= 5 words); the same with 1-3 injected offending bytes (lower-case twins, near-miss letters, control bytes, >= 0x80) at first/last/word-boundary/random positions; strings with 2-4-byte UTF-8 characters; symbol-iterator constructors (collect / From<&Vec> / extend / push, also through iterators whose size_hint is exact, unknown, below the true count, or as large as usize::MAX). Each string goes through every parsing entry point that can take it. A case is distinct by (codec, input bytes); all are non-trivial (each is a parse judged against the alphabet model)."));
        ctx.note("assumptions", json!(["for the 1-bit codec the 'same symbols' of the statement are the canonical symbols S/W: text ACGT parses to S/W and displays as S/W"]));
    });
}
