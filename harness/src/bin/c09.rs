//! C09 — k-mer operations agree with the same operation on the equivalent sequence;
//! results stay in canonical form (integer < 2^(K*BITS)).
//! Oracle: the same operation on the model Vec (rotate, drop-one-push-one, reverse, documented
//! complement) and on the real Seq with the same symbols.

use bio_seq::prelude::*;
use bsv::*;
use serde_json::json;
use std::marker::PhantomData;

fn top(kb: usize) -> u128 {
    if kb >= 128 { u128::MAX } else { (1u128 << kb) - 1 }
}
fn digits(bits: u8, k: usize, v: u128) -> Vec<u8> {
    (0..k).map(|i| ((v >> (i * bits as usize)) & ((1u128 << bits) - 1)) as u8).collect()
}

/// k-mers to exercise: all when K*BITS <= 12, else boundary patterns + random (as code vectors)
fn kmers_for<C: CI>(ctx: &mut Ctx, k: usize) -> Vec<Vec<u8>> {
    let a = C::alpha();
    let codes = a.codes();
    let kb = k * a.bits as usize;
    let mut out: Vec<Vec<u8>> = Vec::new();
    if kb <= 12 && !ctx.lite {
        for v in 0..=top(kb) {
            let d = digits(a.bits, k, v);
            if d.iter().all(|c| codes.contains(c)) {
                out.push(d);
            }
        }
        return out;
    }
    let maxc = *codes.iter().max().unwrap();
    let minc = *codes.iter().min().unwrap();
    out.push(vec![minc; k]);
    out.push(vec![maxc; k]);
    if !ctx.lite {
        for i in 0..k {
            let mut v = vec![minc; k];
            v[i] = maxc;
            out.push(v);
        }
        out.push((0..k).map(|i| if i % 2 == 0 { maxc } else { codes[0] }).collect());
    }
    for _ in 0..ctx.n(12, 200, 2) {
        out.push(rand_codes(&mut ctx.rng, a, k));
    }
    out
}

fn ops_case<C: CI, const K: usize, S: KS>(ctx: &mut Ctx) {
    let a = C::alpha();
    let name = C::NAME;
    if ctx.lite && !ctx.mine_group(K) {
        return;
    }
    let kb = K * a.bits as usize;
    let lim = top(kb);
    ctx.group(&format!("{name}/rotate+push/K{K}/{}", S::NAME), |ctx| {
        let ks = kmers_for::<C>(ctx, K);
        let exhaustive = kb <= 12 && !ctx.lite;
        let allsyms: Vec<C> = a.codes().iter().map(|&c| C::try_from_bits(c).unwrap()).collect();
        for (ki, x) in ks.iter().enumerate() {
            if ctx.over() {
                break;
            }
            let k: Kmer<C, K, S> = Kmer { _p: PhantomData, bs: S::from_u128(model::pack_u128(a.bits, x)) };
            let seq = mk::<C>(x);
            // rotations
            let mut rots: Vec<u32> = vec![0, 1, (K - 1) as u32, K as u32, (K + 1) as u32, (2 * K) as u32, (7 * K) as u32];
            if ki % 4 == 0 || !exhaustive {
                rots.extend([65_535, 65_536, 65_537, u32::MAX, ctx.rng.next() as u32]);
            }
            for n in rots {
                ctx.eval();
                let mut ml = x.clone();
                ml.rotate_left(n as usize % K);
                let mut mr = x.clone();
                mr.rotate_right(n as usize % K);
                for (dir, want, got) in [("rotated_left", &ml, observe(|| k.rotated_left(n))), ("rotated_right", &mr, observe(|| k.rotated_right(n)))] {
                    match got {
                        Ok(r) => {
                            let v = r.bs.to_u128();
                            check!(ctx, v <= lim, format!("{dir}|{name}|{}|not-canonical", S::NAME), "{name} K={K} {}: {dir}({n}) of {:?} has integer {v:#x} >= 2^{kb}", S::NAME, a.text(x));
                            check!(ctx, v == model::pack_u128(a.bits, want), format!("{dir}|{name}|{}|content", S::NAME), "{name} K={K} {}: {dir}({n}) of {:?} = {:?} want {:?}", S::NAME, a.text(x), a.text_lossy(&digits(a.bits, K, v)), a.text(want));
                        }
                        Err(pm) => check!(ctx, false, format!("{dir}|{name}|{}|panics", S::NAME), "{name} K={K} {}: {dir}({n}) panicked: {pm}", S::NAME),
                    }
                }
                cell!(ctx, "{name}/rotate/{}", if n == 0 { "0" } else if (n as usize) % K == 0 { "multiple-of-K" } else if n > 65_535 { ">u16" } else { "small" });
            }
            // identical to the sequence-level view
            ctx.eval();
            if let Ok(r) = observe(|| k.rotated_left(1)) {
                let mut m = x.clone();
                m.rotate_left(1 % K);
                let ms = mk::<C>(&m);
                check!(ctx, r == ms[..] && observe(|| r.to_string()).as_deref() == Ok(a.text(&m).as_str()), format!("rotated_left|{name}|{}|vs-seq", S::NAME), "{name} K={K}: rotated k-mer != rotated sequence");
            }
            // pushes: every symbol, on both ends; then a chain of 2K pushes (window sliding)
            for s in &allsyms {
                ctx.eval();
                let c = s.to_bits();
                let mut mr: Vec<u8> = x[1..].to_vec();
                mr.push(c);
                let mut ml: Vec<u8> = vec![c];
                ml.extend(&x[..K - 1]);
                for (dir, want, got) in [("pushr", &mr, observe(|| k.pushr(*s))), ("pushl", &ml, observe(|| k.pushl(*s)))] {
                    match got {
                        Ok(r) => {
                            let v = r.bs.to_u128();
                            check!(ctx, v <= lim, format!("{dir}|{name}|{}|not-canonical", S::NAME), "{name} K={K} {}: {dir}({}) of {:?} has integer {v:#x} >= 2^{kb}", S::NAME, s.to_char(), a.text(x));
                            check!(ctx, v == model::pack_u128(a.bits, want), format!("{dir}|{name}|{}|content", S::NAME), "{name} K={K} {}: {dir}({}) of {:?} = {:?} want {:?}", S::NAME, s.to_char(), a.text(x), a.text_lossy(&digits(a.bits, K, v)), a.text(want));
                        }
                        Err(pm) => check!(ctx, false, format!("{dir}|{name}|{}|panics", S::NAME), "{name} K={K} {}: {dir} panicked: {pm}", S::NAME),
                    }
                }
                if exhaustive && a.codes().len() > 8 && ki % 3 != 0 {
                    break; // big alphabets: every symbol for every third k-mer, first symbol otherwise
                }
            }
            if ki % 8 == 0 || !exhaustive {
                let mut cur = k;
                let mut m = x.clone();
                let mut ok = true;
                for j in 0..2 * K {
                    let s = allsyms[(ctx.rng.next() as usize) % allsyms.len()];
                    let r = if j % 3 == 2 { observe(|| cur.pushl(s)) } else { observe(|| cur.pushr(s)) };
                    match r {
                        Ok(r) => cur = r,
                        Err(_) => { ok = false; break; }
                    }
                    if j % 3 == 2 { m.pop(); m.insert(0, s.to_bits()); } else { m.remove(0); m.push(s.to_bits()); }
                }
                ctx.eval();
                check!(ctx, ok && cur.bs.to_u128() == model::pack_u128(a.bits, &m), format!("push-chain|{name}|{}|content", S::NAME), "{name} K={K} {}: after 2K pushes from {:?}: {:?} want {:?}", S::NAME, a.text(x), a.text_lossy(&digits(a.bits, K, cur.bs.to_u128())), a.text(&m));
                cell!(ctx, "{name}/push-chain");
            }
            let _ = &seq;
            ctx.nontrivial(fp(&[name.as_bytes(), S::NAME.as_bytes(), &[K as u8], x]));
        }
        cell!(ctx, "{name}/K{K}/{}", S::NAME);
        if exhaustive {
            ctx.count("kmer-types-enumerated-completely", 1);
        }
        ctx.sample(|| json!({"codec": name, "K": K, "storage": S::NAME, "kmers": ks.len(), "exhaustive": exhaustive, "example": a.text(&ks[ks.len() / 2])}));
    });
}

/// reverse: implemented for every codec on usize storage
fn rev_case<C: CI, const K: usize, S: KS>(ctx: &mut Ctx) {
    let a = C::alpha();
    let name = C::NAME;
    if ctx.lite && !ctx.mine_group(K + 1) {
        return;
    }
    let kb = K * a.bits as usize;
    ctx.group(&format!("{name}/reverse/K{K}"), |ctx| {
        for x in kmers_for::<C>(ctx, K) {
            if ctx.over() {
                break;
            }
            ctx.eval();
            let k = Kmer::<C, K>::from(model::pack_u128(a.bits, &x) as usize);
            let want: Vec<u8> = x.iter().rev().copied().collect();
            let seq_rev = mk::<C>(&x).to_rev();
            match observe(|| { let r = k.to_rev(); let mut i = k; i.rev(); (r, i) }) {
                Ok((r, i)) => {
                    let v = r.bs as u128;
                    check!(ctx, v <= top(kb), format!("Kmer::to_rev|{name}|not-canonical"), "{name} K={K}: to_rev of {:?} has integer {v:#x} >= 2^{kb}", a.text(&x));
                    check!(ctx, v == model::pack_u128(a.bits, &want), format!("Kmer::to_rev|{name}|content"), "{name} K={K}: to_rev of {:?} = {:?} (integer {v:#x}), sequence reverse is {:?}", a.text(&x), a.text_lossy(&digits(a.bits, K, v)), a.text(&want));
                    check!(ctx, i == r, format!("Kmer::rev|{name}|in-place-differs"), "{name} K={K}: in-place rev differs from to_rev");
                    check!(ctx, r == seq_rev[..] || v != model::pack_u128(a.bits, &want), format!("Kmer::to_rev|{name}|vs-seq"), "{name} K={K}: reversed k-mer != reversed sequence");
                    let rr = observe(|| r.to_rev());
                    check!(ctx, rr.map(|q| q.bs) == Ok(k.bs), format!("Kmer::to_rev|{name}|not-involutive"), "{name} K={K}: to_rev twice of {:?} is not the identity", a.text(&x));
                }
                Err(pm) => check!(ctx, false, format!("Kmer::to_rev|{name}|panics"), "{name} K={K}: to_rev of {:?} panicked: {pm}", a.text(&x)),
            }
            ctx.nontrivial(fp(&[b"rev", name.as_bytes(), &[K as u8], &x]));
        }
        let _ = S::NAME;
        cell!(ctx, "{name}/reverse/K{K}");
    });
}

/// complement / reverse-complement / canonical k-mer: 2-bit DNA on usize
fn dna_case<C: CI, const K: usize, S: KS>(ctx: &mut Ctx) {
    if C::NAME != "dna" {
        return;
    }
    if ctx.lite && !ctx.mine_group(K + 2) {
        return;
    }
    let a = model::dna();
    let kb = 2 * K;
    ctx.group(&format!("dna/complement/K{K}"), |ctx| {
        for x in kmers_for::<Dna>(ctx, K) {
            if ctx.over() {
                break;
            }
            ctx.eval();
            let k = Kmer::<Dna, K>::from(model::pack_u128(2, &x) as usize);
            let comp: Vec<u8> = x.iter().map(|c| 3 - c).collect();
            let rc: Vec<u8> = comp.iter().rev().copied().collect();
            let s = mk::<Dna>(&x);
            match observe(|| (k.to_comp(), k.to_revcomp(), { let mut i = k; i.comp(); i }, { let mut i = k; i.revcomp(); i })) {
                Ok((c, r, ci, ri)) => {
                    for (op, got, want) in [("to_comp", c, &comp), ("to_revcomp", r, &rc), ("comp", ci, &comp), ("revcomp", ri, &rc)] {
                        let v = got.bs as u128;
                        check!(ctx, v <= top(kb), format!("Kmer::{op}|dna|not-canonical"), "dna K={K}: {op} of {:?} has integer {v:#x} >= 2^{kb}", a.text(&x));
                        check!(ctx, v == model::pack_u128(2, want), format!("Kmer::{op}|dna|content"), "dna K={K}: {op} of {:?} = {:?}, sequence-level result is {:?}", a.text(&x), a.text_lossy(&digits(2, K, v)), a.text(want));
                    }
                    check!(ctx, c == s.to_comp()[..] && r == s.to_revcomp()[..] || r.bs as u128 != model::pack_u128(2, &rc), "Kmer::to_revcomp|dna|vs-seq", "dna K={K}: k-mer revcomp != Seq revcomp for {:?}", a.text(&x));
                    let back = observe(|| r.to_revcomp());
                    check!(ctx, back.map(|b| b.bs) == Ok(k.bs), "Kmer::to_revcomp|dna|not-involutive", "dna K={K}: revcomp twice of {:?} is not the identity", a.text(&x));
                    // canonical k-mer: the same from either member
                    if let Ok(r2) = observe(|| r.to_revcomp()) {
                        let c1 = std::cmp::min(k, r);
                        let c2 = std::cmp::min(r, r2);
                        check!(ctx, c1 == c2, "canonical-kmer|dna|differs", "dna K={K}: min(k, rc(k)) differs when computed from rc(k) for {:?}", a.text(&x));
                    }
                }
                Err(pm) => check!(ctx, false, "Kmer::to_revcomp|dna|panics", "dna K={K}: complement ops on {:?} panicked: {pm}", a.text(&x)),
            }
            ctx.nontrivial(fp(&[b"comp", &[K as u8], &x]));
        }
        let _ = S::NAME;
        cell!(ctx, "dna/complement/K{K}");
    });
}

fn main() {
    run_main("C09", |ctx| {
        ctx.first_use_race(3, |t| {
            let d: Seq<Dna> = "ACGTTGCAACGTACGTACGTACGTACGTACGTTTGAC".try_into().unwrap();
            let i: Seq<Iupac> = "ACGTRYSWKMBDHVN-ACGT".try_into().unwrap();
            let m: Seq<Amino> = "MAGICLIFEQ".try_into().unwrap();
            let k: Kmer<Dna, 11> = Kmer::try_from(&d[t..t + 11]).unwrap();
            let k32: Kmer<Dna, 32> = Kmer::try_from(&d[t..t + 32]).unwrap();
            let ki: Kmer<Iupac, 7> = Kmer::try_from(&i[t..t + 7]).unwrap();
            let ka: Kmer<Amino, 10> = Kmer::try_from(&m[..]).unwrap();
            let ku: Kmer<Dna, 35, u128> = Kmer::try_from(&d[t..t + 35]).unwrap();
            (
                (k.to_rev().to_string(), k.to_comp().to_string(), k.to_revcomp().to_string(), k.rotated_left(3 + t as u32).to_string(), k.rotated_right(70000).to_string(), k.pushr(Dna::G).to_string(), k.pushl(Dna::T).to_string()),
                (k32.to_revcomp().to_string(), k32.to_comp().to_string(), k32.rotated_left(31).to_string(), k32.pushl(Dna::C).to_string()),
                (ki.to_rev().to_string(), ki.rotated_left(2).to_string(), ki.pushr(Iupac::N).to_string()),
                (ka.to_rev().to_string(), ka.rotated_right(3).to_string()),
                (ku.rotated_left(5).to_string(), ku.pushr(Dna::A).to_string(), ku.pushl(Dna::G).to_string()),
            )
        });
        if ctx.lite {
            for_each_k_small!(ops_case, usize, ctx);
            for_each_k_small!(ops_case, u128, ctx);
            for_each_k_small!(rev_case, usize, ctx);
            for_each_k_small!(dna_case, usize, ctx);
        } else {
            for_each_k64!(ops_case, usize, ctx);
            for_each_k64!(ops_case, u64, ctx);
            for_each_k128!(ops_case, ctx);
            for_each_k64!(rev_case, usize, ctx);
            with_ks!(dna_case, Dna, usize, [1,2,3,4,5,6,7,8,9,10,11,12,13,14,15,16,17,18,19,20,21,22,23,24,25,26,27,28,29,30,31,32], ctx);
        }
        ctx.note("rule", json!("every (codec,K,storage): ALL k-mers when K*BITS<=12, otherwise all-min, all-max, single-max-symbol at each position, alternating and random k-mers; rotated_left/right by {0,1,K-1,K,K+1,2K,7K,65535,65536,65537,u32::MAX,random}; pushr/pushl of every symbol and a chain of 2K random pushes; reverse (every codec, usize) incl. in-place and involution; complement / reverse-complement / canonical k-mer (2-bit DNA, K=1..32) compared with the Seq-level result. Every result's integer must be < 2^(K*BITS). Distinct = (codec,K,storage,k-mer)."));
    });
}
