//! C07 — reverse, complement and reverse-complement of sequences are exact and involutive.
//! Oracle: reversed / complemented model (documented complement tables).

use bio_seq::prelude::*;
use bsv::*;
use serde_json::json;

fn image<C: CI>(s: &Seq<C>) -> (String, Vec<u64>) {
    (s.to_string(), model::live_bits(s.into_raw(), s.len() * C::BITS as usize))
}

fn patterns(ctx: &mut Ctx, a: &model::Alphabet, n: usize, k: usize) -> Vec<u8> {
    match k % 4 {
        0 | 1 => rand_codes(&mut ctx.rng, a, n),
        2 => {
            // palindromic in symbols (extra diet: hides order bugs, so never the only input)
            let half = rand_codes(&mut ctx.rng, a, n.div_ceil(2));
            (0..n).map(|i| if i < half.len() { half[i] } else { half[n - 1 - i] }).collect()
        }
        _ => {
            let c = *ctx.rng.pick(&a.codes());
            vec![c; n]
        }
    }
}

fn rev_case<C: CI>(ctx: &mut Ctx, codes: &[u8], pad: usize) {
    let a = C::alpha();
    let name = C::NAME;
    let n = codes.len();
    let p = Padded::<C>::new(&mut ctx.rng, pad, codes, 3);
    let before = image(&p.parent);
    let s = p.slice();
    let (head, _) = s.verif_layout();
    let want: Vec<u8> = codes.iter().rev().copied().collect();
    let what = format!("{name} len {n} pad {pad} {:?}", a.text(&codes[..n.min(48)]));
    ctx.eval();
    match observe(|| s.to_rev()) {
        Ok(r) => {
            check!(ctx, r.len() == n, format!("to_rev|{name}|length"), "{what}: to_rev len {}", r.len());
            let got = codes_of::<C>(&r);
            check!(ctx, got == want, format!("to_rev|{name}|content"), "{what}: slice.to_rev() = {:?} want {:?}", a.text_lossy(&got), a.text(&want));
            // twice = identity
            let rr = r.to_rev();
            check!(ctx, codes_of::<C>(&rr) == codes, format!("to_rev|{name}|not-involutive"), "{what}: to_rev twice = {:?}", rr.to_string());
            // image of the result starts at bit 0 (C04 tie-in) and equals the model packing
            check!(ctx, model::live_bits(r.into_raw(), n * a.bits as usize) == model::pack_words(a.bits, &want), format!("to_rev|{name}|raw-image"), "{what}: raw image of to_rev() differs from packed model");
        }
        Err(pm) => check!(ctx, false, format!("to_rev|{name}|panics"), "{what}: to_rev panicked: {pm}"),
    }
    // owned receiver and in-place form on a copy
    let owned = mk::<C>(codes);
    let o_before = image(&owned);
    match observe(|| owned.to_rev()) {
        Ok(r) => check!(ctx, codes_of::<C>(&r) == want, format!("to_rev|{name}|owned-content"), "{what}: Seq::to_rev() = {:?}", r.to_string()),
        Err(pm) => check!(ctx, false, format!("to_rev|{name}|panics"), "{what}: Seq::to_rev panicked: {pm}"),
    }
    check!(ctx, image(&owned) == o_before, format!("to_rev|{name}|receiver-changed"), "{what}: owned receiver changed by to_rev");
    let mut inplace = s.to_owned();
    match observe(move || { inplace.rev(); inplace }) {
        Ok(r) => check!(ctx, codes_of::<C>(&r) == want, format!("rev|{name}|in-place-content"), "{what}: in-place rev = {:?}", r.to_string()),
        Err(pm) => check!(ctx, false, format!("rev|{name}|panics"), "{what}: rev panicked: {pm}"),
    }
    check!(ctx, image(&p.parent) == before, format!("to_rev|{name}|receiver-changed"), "{what}: parent of the slice changed by to_rev");
    ctx.cell_k(fp(&[b"rev", name.as_bytes(), &[head as u8], len_class(a.bits, n).as_bytes()]), || format!("{name}/rev/head{head}/{}", len_class(a.bits, n)));
    ctx.nontrivial(fp(&[b"rev", name.as_bytes(), codes, &[pad as u8]]));
}

fn comp_case<C: CI + ComplementMut>(ctx: &mut Ctx, codes: &[u8], pad: usize)
{
    let a = C::alpha();
    let name = C::NAME;
    let n = codes.len();
    let p = Padded::<C>::new(&mut ctx.rng, pad, codes, 3);
    let before = image(&p.parent);
    let s = p.slice();
    let (head, _) = s.verif_layout();
    let comp: Vec<u8> = codes.iter().map(|&c| a.comp_code(c)).collect();
    let rc: Vec<u8> = comp.iter().rev().copied().collect();
    let what = format!("{name} len {n} pad {pad} {:?}", a.text(&codes[..n.min(48)]));
    ctx.eval();
    let r = observe(|| {
        let c = s.to_comp();
        let x = s.to_revcomp();
        let cr = s.to_comp().to_rev();
        let rc2 = s.to_rev().to_comp();
        (c, x, cr, rc2)
    });
    match r {
        Ok((c, x, cr, rc2)) => {
            check!(ctx, c.len() == n && x.len() == n, format!("to_comp|{name}|length"), "{what}: lengths {} {}", c.len(), x.len());
            check!(ctx, codes_of::<C>(&c) == comp, format!("to_comp|{name}|content"), "{what}: to_comp = {:?} want {:?}", c.to_string(), a.text(&comp));
            check!(ctx, codes_of::<C>(&x) == rc, format!("to_revcomp|{name}|content"), "{what}: to_revcomp = {:?} want {:?}", x.to_string(), a.text(&rc));
            check!(ctx, cr == x && rc2 == x, format!("to_revcomp|{name}|composition"), "{what}: rev∘comp {:?} / comp∘rev {:?} / revcomp {:?} differ", cr.to_string(), rc2.to_string(), x.to_string());
            check!(ctx, codes_of::<C>(&c.to_comp()) == codes, format!("to_comp|{name}|not-involutive"), "{what}: to_comp twice != original");
            check!(ctx, codes_of::<C>(&x.to_revcomp()) == codes, format!("to_revcomp|{name}|not-involutive"), "{what}: to_revcomp twice = {:?}", x.to_revcomp().to_string());
            check!(ctx, model::live_bits(x.into_raw(), n * a.bits as usize) == model::pack_words(a.bits, &rc), format!("to_revcomp|{name}|raw-image"), "{what}: raw image of to_revcomp() differs from packed model");
        }
        Err(pm) => check!(ctx, false, format!("to_revcomp|{name}|panics"), "{what}: complement/revcomp panicked: {pm}"),
    }
    // owned receiver, and the in-place forms on a copy
    let owned = mk::<C>(codes);
    let o_before = image(&owned);
    let r = observe(|| {
        let a1 = owned.to_comp();
        let a2 = owned.to_revcomp();
        let mut i1 = owned.clone();
        i1.comp();
        let mut i2 = owned.clone();
        i2.revcomp();
        let mut i3 = owned.clone();
        i3.comp();
        i3.rev();
        (a1, a2, i1, i2, i3)
    });
    match r {
        Ok((a1, a2, i1, i2, i3)) => {
            check!(ctx, codes_of::<C>(&a1) == comp && codes_of::<C>(&i1) == comp, format!("comp|{name}|owned-or-in-place"), "{what}: owned to_comp {:?} in-place {:?}", a1.to_string(), i1.to_string());
            check!(ctx, codes_of::<C>(&a2) == rc && codes_of::<C>(&i2) == rc && codes_of::<C>(&i3) == rc, format!("revcomp|{name}|owned-or-in-place"), "{what}: owned to_revcomp {:?} in-place {:?} comp+rev {:?}", a2.to_string(), i2.to_string(), i3.to_string());
        }
        Err(pm) => check!(ctx, false, format!("revcomp|{name}|panics"), "{what}: owned/in-place complement panicked: {pm}"),
    }
    check!(ctx, image(&owned) == o_before && image(&p.parent) == before, format!("to_comp|{name}|receiver-changed"), "{what}: receiver changed by a copying form");
    ctx.cell_k(fp(&[b"comp", name.as_bytes(), &[head as u8], len_class(a.bits, n).as_bytes()]), || format!("{name}/comp+revcomp/head{head}/{}", len_class(a.bits, n)));
    ctx.nontrivial(fp(&[b"comp", name.as_bytes(), codes, &[pad as u8]]));
}

fn lengths(ctx: &Ctx, bits: u8) -> Vec<usize> {
    let pw = per_word(bits);
    if ctx.lite {
        return vec![0, 1, 2, pw - 1 + ctx.shard % 3, pw + pw / 2];
    }
    let max = if ctx.tier == Tier::Thorough { 3 * pw + 2 } else { 2 * pw + 2 };
    let mut v: Vec<usize> = (0..=max).collect();
    if bits == 1 && ctx.tier == Tier::Quick {
        v = (0..=16).chain(boundary_lengths(1, 3)).collect();
    }
    v.extend(boundary_lengths(bits, 3));
    v.sort_unstable();
    v.dedup();
    v
}
/// long sequences (4..33 machine words): table / word-at-a-time fast paths only engage here
fn long_cases(ctx: &Ctx, bits: u8) -> Vec<(usize, usize)> {
    if ctx.lite {
        return vec![];
    }
    let noff = n_offsets(bits);
    let mut v = Vec::new();
    for (i, n) in long_lengths(bits).into_iter().enumerate() {
        for pad in [0usize, 1 % noff, (i * 5 + 3) % noff] {
            v.push((n, pad));
        }
    }
    v
}

/// the same cases on exact-fit operands: owned sequences without spare words and windows that are the tail of
/// such an allocation (whole-word lengths, aligned / unaligned starts) — an access past the last word or byte of
/// the content leaves the allocation
fn exact_fit<C: CI>(ctx: &mut Ctx, what: &str, case: fn(&mut Ctx, &[u8], usize)) {
    let a = C::alpha();
    let name = C::NAME;
    ctx.group(&format!("{name}/{what}/exact-fit"), |ctx| {
        let cases = exact_fit_cases_for(ctx, a.bits);
        for (k, (n, pad)) in cases.into_iter().enumerate() {
            if ctx.over() {
                break;
            }
            let _fit = exact_fit_mode();
            let codes = patterns(ctx, a, n, k);
            case(ctx, &codes, pad);
            cell!(ctx, "{name}/{what}/exact-fit/{}/pad{}", len_class(a.bits, n), if pad == 0 { "0" } else if (pad * a.bits as usize) % 64 == 0 { "word" } else { "unaligned" });
        }
    });
}

/// sequences of 2^10 .. 2^16 symbols and 65 .. 2049 machine words, random and structured contents, a few offsets
fn huge<C: CI>(ctx: &mut Ctx, what: &str, case: fn(&mut Ctx, &[u8], usize)) {
    let a = C::alpha();
    let name = C::NAME;
    let noff = n_offsets(a.bits);
    ctx.group(&format!("{name}/{what}/huge"), |ctx| {
        for (k, n) in huge_lengths(ctx, a.bits).into_iter().enumerate() {
            let codes = structured_codes(&mut ctx.rng, a, n, k);
            case(ctx, &codes, [0, 1 % noff, (k * 7 + 3) % noff][k % 3]);
            cell!(ctx, "{name}/{what}/huge/2^{}", usize::BITS - n.leading_zeros());
        }
    });
}

fn run_rev<C: CI>(ctx: &mut Ctx) {
    let a = C::alpha();
    let name = C::NAME;
    let noff = n_offsets(a.bits);
    ctx.group(&format!("{name}/reverse"), |ctx| {
        for (li, n) in lengths(ctx, a.bits).into_iter().enumerate() {
            if ctx.over() {
                break;
            }
            let pads: Vec<usize> = if ctx.lite { vec![(li * 3 + ctx.shard) % noff] }
                else { (0..noff).collect() };
            for (k, pad) in pads.into_iter().enumerate() {
              for rep in 0..ctx.n(1, 8, 1) {
                let codes = patterns(ctx, a, n, k + li + rep);
                rev_case::<C>(ctx, &codes, pad);
                ctx.sample(|| json!({"codec": name, "op": "rev", "len": n, "pad": pad, "text": a.text(&codes[..n.min(60)])}));
              }
            }
        }
        for (k, (n, pad)) in long_cases(ctx, a.bits).into_iter().enumerate() {
            let codes = patterns(ctx, a, n, k * 4); // random contents
            rev_case::<C>(ctx, &codes, pad);
        }
    });
    exact_fit::<C>(ctx, "reverse", rev_case::<C>);
    huge::<C>(ctx, "reverse", rev_case::<C>);
}

fn run_comp<C: CI + ComplementMut>(ctx: &mut Ctx)
{
    let a = C::alpha();
    let name = C::NAME;
    let noff = n_offsets(a.bits);
    ctx.group(&format!("{name}/complement"), |ctx| {
        for (li, n) in lengths(ctx, a.bits).into_iter().enumerate() {
            if ctx.over() {
                break;
            }
            let pads: Vec<usize> = if ctx.lite { vec![(li * 5 + ctx.shard) % noff] }
                else { (0..noff).collect() };
            for (k, pad) in pads.into_iter().enumerate() {
              for rep in 0..ctx.n(1, 8, 1) {
                let codes = patterns(ctx, a, n, k + li + 1 + rep);
                comp_case::<C>(ctx, &codes, pad);
                ctx.sample(|| json!({"codec": name, "op": "comp/revcomp", "len": n, "pad": pad, "text": a.text(&codes[..n.min(60)])}));
              }
            }
        }
        for (k, (n, pad)) in long_cases(ctx, a.bits).into_iter().enumerate() {
            let codes = patterns(ctx, a, n, k * 4);
            comp_case::<C>(ctx, &codes, pad);
        }
    });
    exact_fit::<C>(ctx, "complement", comp_case::<C>);
    huge::<C>(ctx, "complement", comp_case::<C>);
}

fn main() {
    run_main("C07", |ctx| {
        ctx.first_use_race(3, |t| {
            let d: Seq<Dna> = ["ACGTTGCAACGTACGTACGTACGTACGTACGTTTGAC", "TTGACCA", "GATTACAGATTACAGATTACAGATTACAGATTACA"][t % 3].try_into().unwrap();
            let i: Seq<Iupac> = ["ACGTRYSWKMBDHVN-ACGT", "NNRY-", "BDHVACGTBDHVACGTB"][t % 3].try_into().unwrap();
            let m: Seq<Amino> = "MAGICLIFEQRSTVWY*".try_into().unwrap();
            let x: Seq<Text> = "ACGTNNGATTACA".try_into().unwrap();
            let mut e = d.clone();
            e.revcomp();
            (
                (d.to_rev().to_string(), d.to_comp().to_string(), d.to_revcomp().to_string(), d[1..].to_revcomp().to_string(), e.to_string()),
                (i.to_rev().to_string(), i.to_comp().to_string(), i.to_revcomp().to_string()),
                m.to_rev().to_string(),
                x.to_rev().to_string(),
                Dna::items().map(|s| s.to_comp().to_bits()).collect::<Vec<u8>>(),
            )
        });
        for_each_codec!(run_rev, ctx);
        for_each_comp_codec!(run_comp, ctx);
        ctx.note("rule", json!("reverse for all 7 codecs and complement / reverse-complement for the 5 complementable ones: every length 0..2 words (+boundary classes to 3 words; thorough: every length to 3 words) x ALL achievable bit offsets (thorough: 8 contents per cell), contents random / palindromic / single-symbol; plus long sequences of 4, 5, 8, 9, 16 and 33 machine words (+-1 symbol) at three offsets, all codecs in one process (so process-wide caches are shared between codecs); slice, owned and in-place forms; compositions and involutions; receiver image compared before/after. Distinct = (codec, op, content, pad); all non-trivial except length 0/1 which are counted too."));
    });
}
