//! C11 — symbol, reverse, window and chunk iterators enumerate exactly the right items.
//! Oracle: Vec iterators of the model; termination decided on a logical step bound (n+5 calls).

use bio_seq::prelude::*;
use bsv::*;
use serde_json::json;

/// Drain with a step bound. Returns (items, terminated_within_bound, stays_none_after_end).
fn drain<T>(mut it: impl Iterator<Item = T>, bound: usize) -> (Vec<T>, bool, bool) {
    let mut v = Vec::new();
    let mut terminated = false;
    for _ in 0..bound {
        match it.next() {
            Some(x) => v.push(x),
            None => {
                terminated = true;
                break;
            }
        }
    }
    let fused = terminated && it.next().is_none() && it.next().is_none();
    (v, terminated, fused)
}

fn term<C: CI>(ctx: &mut Ctx, kind: &str, what: &str, n_expected: usize, got: usize, terminated: bool, fused: bool) {
    let name = C::NAME;
    check!(ctx, terminated, format!("{kind}|{name}|does-not-terminate"), "{what}: {kind} still yielding after {} next() calls (expected {n_expected} items)", n_expected + 5);
    check!(ctx, got == n_expected, format!("{kind}|{name}|count"), "{what}: {kind} yields {got} items, expected {n_expected}");
    check!(ctx, !terminated || fused, format!("{kind}|{name}|resumes-after-none"), "{what}: {kind} yields an item after returning None");
}

fn one<C: CI>(ctx: &mut Ctx, codes: &[u8], pad: usize, all_widths: bool) {
    let a = C::alpha();
    let name = C::NAME;
    let n = codes.len();
    let p = Padded::<C>::new(&mut ctx.rng, pad, codes, 2);
    let s = p.slice();
    let (head, _) = s.verif_layout();
    let what = format!("{name} len {n} pad {pad} {:?}", a.text(&codes[..n.min(40)]));
    let lc = len_class(a.bits, n);
    let strad = straddles(a.bits, head, n);

    // forward
    ctx.eval();
    let (v, t, f) = drain(s.iter(), n + 5);
    term::<C>(ctx, "iter", &what, n, v.len(), t, f);
    let got: Vec<u8> = v.iter().map(|x| x.to_bits()).collect();
    check!(ctx, got == codes, format!("iter|{name}|content"), "{what}: iter gives {:?} want {:?}", got, codes);
    let (v, t, f) = drain(s.into_iter(), n + 5);
    term::<C>(ctx, "into_iter(&SeqSlice)", &what, n, v.len(), t, f);
    check!(ctx, v.iter().map(|x| x.to_bits()).eq(codes.iter().copied()), format!("into_iter|{name}|content"), "{what}: (&slice).into_iter() content wrong");
    cell!(ctx, "{name}/iter/{lc}/head{head}/straddle={strad}");
    // reverse
    ctx.eval();
    let (v, t, f) = drain(s.rev_iter(), n + 5);
    term::<C>(ctx, "rev_iter", &what, n, v.len(), t, f);
    let got: Vec<u8> = v.iter().map(|x| x.to_bits()).collect();
    let want: Vec<u8> = codes.iter().rev().copied().collect();
    check!(ctx, got == want, format!("rev_iter|{name}|content"), "{what}: rev_iter gives {:?} want {:?}", got, want);
    cell!(ctx, "{name}/rev_iter/{lc}/head{head}/straddle={strad}");
    // owned receiver
    if pad % 4 == 0 {
        let owned = mk::<C>(codes);
        let (v, t, f) = drain((&owned).into_iter(), n + 5);
        term::<C>(ctx, "into_iter(&Seq)", &what, n, v.len(), t, f);
        check!(ctx, v.iter().map(|x| x.to_bits()).eq(codes.iter().copied()), format!("into_iter|{name}|content"), "{what}: (&seq).into_iter() content wrong");
        let (v, _, _) = drain(owned.rev_iter(), n + 5);
        check!(ctx, v.iter().map(|x| x.to_bits()).eq(codes.iter().rev().copied()), format!("rev_iter|{name}|content"), "{what}: owned rev_iter content wrong");
    }

    // the adaptors that go through the iterator's own nth(): nth / skip / step_by / count / last / size_hint
    if !ctx.lite || n < 6 {
        ctx.eval();
        let wantv: Vec<u8> = codes.to_vec();
        for (c, d) in adaptor_laws(&|| s.iter(), &|x: C| x.to_bits(), &wantv) {
            check!(ctx, false, format!("iter.{c}|{name}"), "{what}: iter(): {d}");
        }
        let wantr: Vec<u8> = codes.iter().rev().copied().collect();
        for (c, d) in adaptor_laws(&|| s.rev_iter(), &|x: C| x.to_bits(), &wantr) {
            check!(ctx, false, format!("rev_iter.{c}|{name}"), "{what}: rev_iter(): {d}");
        }
        for w in [1usize, 2, 3, n / 2 + 1, n.max(1)] {
            let ww: Vec<Vec<u8>> = if w <= n { codes.windows(w).map(|x| x.to_vec()).collect() } else { vec![] };
            for (c, d) in adaptor_laws(&|| s.windows(w), &|x: &SeqSlice<C>| codes_of::<C>(x), &ww) {
                check!(ctx, false, format!("windows.{c}|{name}"), "{what}: windows({w}): {d}");
            }
            let wc: Vec<Vec<u8>> = codes.chunks_exact(w).map(|x| x.to_vec()).collect();
            for (c, d) in adaptor_laws(&|| s.chunks(w), &|x: &SeqSlice<C>| codes_of::<C>(x), &wc) {
                check!(ctx, false, format!("chunks.{c}|{name}"), "{what}: chunks({w}): {d}");
            }
        }
        cell!(ctx, "{name}/adaptors/{lc}");
    }
    // windows and chunks for every width (or a boundary selection)
    let widths: Vec<usize> = if all_widths { (1..=n + 2).collect() } else {
        let mut w = vec![1, 2, 3, n / 2, n.saturating_sub(1), n, n + 1, n + 2, per_word(a.bits), per_word(a.bits) + 1];
        w.retain(|x| *x >= 1);
        w.sort_unstable();
        w.dedup();
        w
    };
    for w in widths {
        if ctx.over() {
            break;
        }
        ctx.eval();
        let exp_w = if w > n { 0 } else { n - w + 1 };
        let (v, t, f) = drain(s.windows(w), exp_w + 5);
        term::<C>(ctx, "windows", &format!("{what} w={w}"), exp_w, v.len(), t, f);
        for (i, win) in v.iter().enumerate() {
            let ok = win.len() == w && i + w <= n && codes_of::<C>(win) == codes[i..i + w];
            check!(ctx, ok, format!("windows|{name}|content"), "{what} w={w}: window {i} is {:?} (len {})", win.to_string(), win.len());
            if !ok {
                break;
            }
        }
        let exp_c = n / w;
        let (v, t, f) = drain(s.chunks(w), exp_c + 5);
        term::<C>(ctx, "chunks", &format!("{what} w={w}"), exp_c, v.len(), t, f);
        for (i, ch) in v.iter().enumerate() {
            let ok = ch.len() == w && (i + 1) * w <= n && codes_of::<C>(ch) == codes[i * w..(i + 1) * w];
            check!(ctx, ok, format!("chunks|{name}|content"), "{what} w={w}: chunk {i} is {:?} (len {})", ch.to_string(), ch.len());
            if !ok {
                break;
            }
        }
        let wc = if w > n { "w>n" } else if w == n { "w=n" } else if n % w == 0 { "n%w=0" } else if n % w == 1 { "n%w=1" } else if n % w == w - 1 { "n%w=w-1" } else { "other" };
        cell!(ctx, "{name}/windows+chunks/{wc}/{lc}");
        ctx.nontrivial(fp(&[name.as_bytes(), codes, &[pad as u8], &(w as u32).to_le_bytes()]));
        // collecting into owned sequences
        if (w + n) % 5 == 0 && w <= n {
            let owned: Vec<Seq<C>> = s.chunks(w).collect();
            check!(ctx, owned.len() == exp_c && owned.iter().enumerate().all(|(i, o)| codes_of::<C>(o) == codes[i * w..(i + 1) * w]),
                format!("chunks|{name}|collect-owned"), "{what} w={w}: chunks collected into Vec<Seq> differ");
            let owned: Vec<Seq<C>> = s.windows(w).collect();
            check!(ctx, owned.len() == exp_w && owned.iter().enumerate().all(|(i, o)| codes_of::<C>(o) == codes[i..i + w]),
                format!("windows|{name}|collect-owned"), "{what} w={w}: windows collected into Vec<Seq> differ");
        }
    }
}

fn run<C: CI>(ctx: &mut Ctx) {
    let a = C::alpha();
    let name = C::NAME;
    let pw = per_word(a.bits);
    let noff = n_offsets(a.bits);
    ctx.group(&format!("{name}/all-widths"), |ctx| {
        let maxn = if ctx.lite { pw + 2 } else { 2 * pw + pw / 2 };
        let mut lens: Vec<usize> = (0..=maxn.min(12)).collect();
        lens.extend(boundary_lengths(a.bits, 2).into_iter().filter(|l| *l <= maxn));
        lens.push(maxn);
        lens.sort_unstable();
        lens.dedup();
        if ctx.lite {
            lens = vec![0, 1, 2 + ctx.shard % 3, pw - 1 + ctx.shard % 3];
        }
        for (li, n) in lens.into_iter().enumerate() {
            if ctx.over() {
                break;
            }
            let pads: Vec<usize> = if ctx.lite { vec![(li + ctx.shard * 3) % noff] }
                else if ctx.tier == Tier::Thorough { (0..noff).collect() } else { (0..noff).filter(|o| (o + li) % 8 == 0).collect() };
            for pad in pads {
                let codes = cover_codes(&mut ctx.rng, a, n);
                one::<C>(ctx, &codes, pad, true);
                ctx.sample(|| json!({"codec": name, "len": n, "pad": pad, "text": a.text(&codes[..n.min(60)]), "widths": format!("1..={}", n + 2)}));
            }
        }
    });
    ctx.group(&format!("{name}/exact-fit"), |ctx| {
        // the iterated window is the tail of an allocation without spare words (whole-word lengths, aligned /
        // unaligned starts): the last items and the last windows / chunks must not read past the content
        let cases = exact_fit_cases_for(ctx, a.bits);
        for (n, pad) in cases {
            if ctx.over() {
                break;
            }
            let _fit = exact_fit_mode();
            let codes = cover_codes(&mut ctx.rng, a, n);
            one::<C>(ctx, &codes, pad, n <= 2 * pw && !ctx.lite);
            cell!(ctx, "{name}/exact-fit/{}/pad{}", len_class(a.bits, n), if pad == 0 { "0" } else if (pad * a.bits as usize) % 64 == 0 { "word" } else { "unaligned" });
        }
    });
    ctx.group(&format!("{name}/huge"), |ctx| {
        // 2^10 .. 2^16 symbols and 65 .. 2049 machine words: page-wise decoders and block-wise adaptors; besides the
        // external iteration of `one`, the internal-iteration entry points (fold / for_each / count / last / collect)
        for (k, n) in huge_lengths(ctx, a.bits).into_iter().enumerate() {
            let codes = structured_codes(&mut ctx.rng, a, n, k);
            let pad = [0, 1 % noff, (k * 5 + 2) % noff][k % 3];
            let p = Padded::<C>::new(&mut ctx.rng, pad, &codes, 2);
            let s = p.slice();
            ctx.eval();
            let what = format!("{name} len {n} pad {pad} (huge)");
            // external iteration, chunks of block-like widths (every chunk compared: linear), windows spot-checked
            let (v, t, f) = drain(s.iter(), n + 5);
            term::<C>(ctx, "iter", &what, n, v.len(), t, f);
            check!(ctx, v.iter().map(|x| x.to_bits()).eq(codes.iter().copied()), format!("iter|{name}|content"), "{what}: iter content wrong");
            let (v, t, f) = drain(s.rev_iter(), n + 5);
            term::<C>(ctx, "rev_iter", &what, n, v.len(), t, f);
            check!(ctx, v.iter().map(|x| x.to_bits()).eq(codes.iter().rev().copied()), format!("rev_iter|{name}|content"), "{what}: rev_iter content wrong");
            for w in [1usize, 3, 64, 100, 4096, 4097, n / 2 + 1, n] {
                if w == 0 || w > n {
                    continue;
                }
                let (v, t, f) = drain(s.chunks(w), n / w + 5);
                term::<C>(ctx, "chunks", &format!("{what} w={w}"), n / w, v.len(), t, f);
                let bad = v.iter().enumerate().position(|(i, ch)| ch.len() != w || (i + 1) * w > n || codes_of::<C>(ch) != codes[i * w..(i + 1) * w]);
                check!(ctx, bad.is_none(), format!("chunks|{name}|content"), "{what} w={w}: chunk {:?} differs from the model", bad);
                let mut it = s.windows(w);
                let total = n - w + 1;
                for j in 0..12usize {
                    let i = [0, 1, total - 1, total / 2, 4095 % total, 4096 % total, 8191 % total, (j * 7919) % total][j % 8] % total;
                    let got = s.windows(w).nth(i);
                    check!(ctx, got.map(|g| g.len() == w && g.nth(0).to_bits() == codes[i] && g.nth(w - 1).to_bits() == codes[i + w - 1]) == Some(true), format!("windows|{name}|content"), "{what} w={w}: window {i} wrong");
                }
                check!(ctx, it.by_ref().count() == total && it.next().is_none(), format!("windows|{name}|count"), "{what} w={w}: windows count is not {total}");
            }
            let r = observe(|| {
                let folded: Vec<u8> = s.iter().fold(Vec::with_capacity(n), |mut v, x| { v.push(x.to_bits()); v });
                let mut each: Vec<u8> = Vec::with_capacity(n);
                s.iter().for_each(|x| each.push(x.to_bits()));
                let rfold: Vec<u8> = s.rev_iter().fold(Vec::with_capacity(n), |mut v, x| { v.push(x.to_bits()); v });
                (folded, each, rfold, s.iter().count(), s.iter().last().map(|x| x.to_bits()), s.rev_iter().count(), s.iter().map(|x| x.to_char()).collect::<String>(), s.iter().skip(n / 2).count(), s.iter().chain(s.iter()).count())
            });
            match r {
                Ok((folded, each, rfold, cnt, last, rcnt, text, half, chained)) => {
                    check!(ctx, folded == codes && each == codes, format!("iter.fold|{name}|content"), "{what}: fold / for_each over iter() give {} / {} items, first difference at {:?}", folded.len(), each.len(), folded.iter().zip(&codes).position(|(g, w)| g != w));
                    check!(ctx, rfold.iter().rev().eq(codes.iter()), format!("rev_iter.fold|{name}|content"), "{what}: fold over rev_iter() gives {} items", rfold.len());
                    check!(ctx, cnt == n && rcnt == n && half == n - n / 2 && chained == 2 * n, format!("iter.count|{name}|count"), "{what}: count() = {cnt} / rev {rcnt} / after skip {half} / chained {chained}");
                    check!(ctx, last == codes.last().copied(), format!("iter.last|{name}|content"), "{what}: last() = {:?}", last);
                    check!(ctx, text == a.text(&codes), format!("iter.collect|{name}|content"), "{what}: collecting the characters gives a different text (len {})", text.len());
                }
                Err(pm) => check!(ctx, false, format!("iter.fold|{name}|panics"), "{what}: panicked {pm}"),
            }
            cell!(ctx, "{name}/huge/2^{}", usize::BITS - n.leading_zeros());
        }
    });
    ctx.group(&format!("{name}/random"), |ctx| {
        for r in 0..ctx.n(400, 10_000, 3) {
            if ctx.over() {
                break;
            }
            let longs = long_lengths(a.bits);
            let n = if ctx.lite { ctx.rng.below(pw + 3) } else if r % 10 == 9 { longs[(r / 10) % longs.len()] } else { ctx.rng.below(4 * pw + 3) };
            let codes = rand_codes(&mut ctx.rng, a, n);
            let pad = ctx.rng.below(noff);
            one::<C>(ctx, &codes, pad, false);
        }
    });
    ctx.group(&format!("{name}/chain"), |ctx| {
        for r in 0..ctx.n(600, 15_000, 4) {
            if ctx.over() {
                break;
            }
            let (n1, n2) = if ctx.lite { (ctx.rng.below(pw / 2 + 2), ctx.rng.below(pw / 2 + 2)) } else { (ctx.rng.below(2 * pw + 2), ctx.rng.below(2 * pw + 2)) };
            let (n1, n2) = match r % 7 { 0 => (0, n2), 1 => (n1, 0), 2 => (0, 0), _ => (n1, n2) };
            let c1 = rand_codes(&mut ctx.rng, a, n1);
            let c2 = rand_codes(&mut ctx.rng, a, n2);
            let (o1, o2) = (ctx.rng.below(noff), ctx.rng.below(noff));
            let p1 = Padded::<C>::new(&mut ctx.rng, o1, &c1, 1);
            let p2 = Padded::<C>::new(&mut ctx.rng, o2, &c2, 1);
            ctx.eval();
            let (v, t, f) = drain(p1.slice().chain(p2.slice()), n1 + n2 + 5);
            term::<C>(ctx, "chain", &format!("{name} chain {n1}+{n2}"), n1 + n2, v.len(), t, f);
            let got: Vec<u8> = v.iter().map(|x| x.to_bits()).collect();
            let want: Vec<u8> = c1.iter().chain(c2.iter()).copied().collect();
            check!(ctx, got == want, format!("chain|{name}|content"), "{name} chain of {:?} (pad {o1}) and {:?} (pad {o2}) gives {:?}", a.text(&c1), a.text(&c2), got);
            cell!(ctx, "{name}/chain/{}+{}", if n1 == 0 { "empty" } else { "nonempty" }, if n2 == 0 { "empty" } else { "nonempty" });
            ctx.nontrivial(fp(&[b"chain", name.as_bytes(), &c1, &c2, &[o1 as u8, o2 as u8]]));
            if r < 2 {
                ctx.sample(|| json!({"codec": name, "chain": [a.text(&c1), a.text(&c2)], "pads": [o1, o2]}));
            }
        }
    });
}

fn main() {
    run_main("C11", |ctx| {
        ctx.first_use_race(3, |t| {
            let d: Seq<Dna> = "ACGTTGCAACGTACGTACGTACGTACGTACGTTTGAC".try_into().unwrap();
            let i: Seq<Iupac> = "ACGTRYSWKMBDHVN-ACGT".try_into().unwrap();
            let m: Seq<Amino> = "MAGICLIFEQRSTVWY*".try_into().unwrap();
            (
                d[t..].iter().map(|x| x.to_bits()).collect::<Vec<u8>>(),
                d[t..].rev_iter().map(|x| x.to_bits()).collect::<Vec<u8>>(),
                d[t..].windows(5 + t).map(|w| w.to_string()).collect::<Vec<String>>(),
                i[t..].chunks(3 + t).map(|w| w.to_string()).collect::<Vec<String>>(),
                m.iter().chain(m[t..].iter()).map(|x| x.to_bits()).collect::<Vec<u8>>(),
                d.chunks(4).collect::<Vec<Seq<Dna>>>().len(),
            )
        });
        for_each_codec!(run, ctx);
        ctx.note("rule", json!("per codec: slices of every length 0..12 and every word-boundary class up to 2.5 words at varying (thorough: all) bit offsets: iter / into_iter (slice and owned) / rev_iter, and windows(w), chunks(w) for EVERY w in 1..=n+2, each drained with a step bound of expected+5 next() calls and two further calls after None; nth / skip / step_by (small, n, n+1 and huge arguments up to usize::MAX) / repeated nth / count / last / size_hint on iter, rev_iter, windows and chunks; random longer slices (every 10th of 4..33 machine words) with boundary widths; chain of two slices at independent offsets incl. empty operands. Distinct = (codec, content, pad, width); all non-trivial."));
    });
}
