//! C13 — standard DNA->amino translation is the standard genetic code for every codon.
//! Oracle: NCBI translation table 1 (the canonical 64-letter string in TCAG order).

use bio_seq::prelude::*;
use bio_seq::translation::{TranslationTable, STANDARD};
use bsv::*;
use serde_json::json;

fn main() {
    run_main("C13", |ctx| {
        let d = model::dna();
        let am = model::amino();
        // before anything else: the first translations of the process, from three threads at once
        ctx.first_use_race(3, |t| {
            let s: Seq<Dna> = ["ATGGCCATTGTAATGGGCCGCTGAAAGGGTGCCCGATAG", "TTTTTCTTATTGCTTCTCCTACTG", "GGGGGAGGTGGCTAATAGTGA"][t % 3].try_into().unwrap();
            (
                s.chunks(3).map(|c| STANDARD.to_amino(c).to_char()).collect::<String>(),
                s.windows(3).map(|c| STANDARD.to_amino(c).to_char()).collect::<String>(),
                s[1..].chunks(3).map(|c| STANDARD.to_amino(c)).collect::<Seq<Amino>>().to_string(),
            )
        });
        ctx.group("all-64-codons-at-every-position", |ctx| {
            // positions 0..=40 cover all 32 even bit offsets and both word-straddling placements
            for pos in 0..=40usize {
                if ctx.lite && !ctx.mine(pos) {
                    continue;
                }
                for c in 0..64u8 {
                    if ctx.lite && (c as usize + pos) % 4 != 0 {
                        continue;
                    }
                    let (b0, b1, b2) = (c & 3, (c >> 2) & 3, (c >> 4) & 3);
                    let mut codes = rand_codes(&mut ctx.rng, d, pos);
                    codes.extend([b0, b1, b2]);
                    codes.extend(rand_codes(&mut ctx.rng, d, 3));
                    let seq = mk::<Dna>(&codes);
                    let codon = &seq[pos..pos + 3];
                    let (head, _) = codon.verif_layout();
                    ctx.eval();
                    let want = model::ncbi_amino(b0, b1, b2);
                    match observe(|| STANDARD.to_amino(codon)) {
                        Ok(aa) => check!(ctx, aa.to_char() as u8 == want, format!("to_amino|dna|wrong-residue"), "codon {:?} at position {pos} (bit offset {head}{}) translates to {:?}, NCBI table 1 says {:?}", d.text(&[b0, b1, b2]), if head > 58 { ", straddling two words" } else { "" }, aa.to_char(), want as char),
                        Err(pm) => check!(ctx, false, format!("to_amino|dna|panics"), "codon {:?} at position {pos}: panicked {pm}", d.text(&[b0, b1, b2])),
                    }
                    ctx.cell_k(fp(&[b"codon", &[c, head as u8]]), || format!("codon/{}/head{head}", d.text(&[b0, b1, b2])));
                    ctx.nontrivial(fp(&[b"c", &[c, pos as u8]]));
                }
            }
            ctx.sample(|| json!({"grid": "64 codons x positions 0..=40 inside a longer random sequence", "oracle": "NCBI table 1"}));
        });
        ctx.group("codons-at-the-end-of-an-allocation", |ctx| {
            // the codon is the last three bases of a sequence without spare words (whole-word lengths, also codons
            // that straddle into the last word): looking at "the next word" while translating leaves the allocation
            for (k, total) in [32usize, 64, 33, 34, 96, 31, 3].into_iter().enumerate() {
                for c in 0..64u8 {
                    if ctx.lite && (c as usize + k) % 16 != (ctx.shard + ctx.seed as usize) % 16 {
                        continue;
                    }
                    let (b0, b1, b2) = (c & 3, (c >> 2) & 3, (c >> 4) & 3);
                    let mut codes = rand_codes(&mut ctx.rng, d, total - 3);
                    codes.extend([b0, b1, b2]);
                    let seq = {
                        let _fit = exact_fit_mode();
                        mk::<Dna>(&codes)
                    };
                    ctx.eval();
                    let want = model::ncbi_amino(b0, b1, b2);
                    let r = observe(|| (STANDARD.to_amino(&seq[total - 3..]).to_char() as u8, seq.chunks(3).last().map(|c| STANDARD.to_amino(c).to_char() as u8), seq.windows(3).last().map(|c| STANDARD.to_amino(c).to_char() as u8)));
                    let want_chunk = if total % 3 == 0 { Some(want) } else { let o = total - total % 3 - 3; Some(model::ncbi_amino(codes[o], codes[o + 1], codes[o + 2])) };
                    check!(ctx, r == Ok((want, want_chunk, Some(want))), "to_amino|dna|allocation-end".to_string(), "codon {:?} ending an exact-capacity sequence of {total} bases: {:?}, NCBI table 1 says {:?}", d.text(&[b0, b1, b2]), r, want as char);
                    cell!(ctx, "codon-at-allocation-end/total{total}");
                    ctx.nontrivial(fp(&[b"ce", &[c, total as u8]]));
                }
            }
        });
        ctx.group("all-64-six-bit-patterns", |ctx| {
            for c in 0..64u8 {
                ctx.eval();
                let want = model::ncbi_amino(c & 3, (c >> 2) & 3, (c >> 4) & 3);
                let t = Amino::try_from_bits(c);
                check!(ctx, t.map(|x| x.to_char() as u8) == Some(want), "Amino::try_from_bits|amino|wrong-residue".to_string(), "pattern {c:#08b} decodes to {:?}, the codon it spells codes for {:?}", t, want as char);
                let u = observe(|| Amino::unsafe_from_bits(c));
                check!(ctx, u.map(|x| x.to_char() as u8) == Ok(want), "Amino::unsafe_from_bits|amino|wrong-residue".to_string(), "pattern {c:#08b}: unsafe_from_bits disagrees with NCBI table 1");
                cell!(ctx, "pattern/{}", want as char);
            }
        });
        ctx.group("windows-and-chunks", |ctx| {
            let lens: Vec<usize> = if ctx.lite { vec![0, 2, 7] } else { (0..=12).chain(boundary_lengths(2, 3)).chain(long_lengths(2)).chain(huge_lengths(ctx, 2)).collect() };
            for n in lens {
                for rep in 0..ctx.n(40, 1500, 1) {
                    if ctx.over() || (n > 1100 && rep >= 2) {
                        break;
                    }
                    let codes = if n > 1100 { structured_codes(&mut ctx.rng, d, n, n + rep) } else { rand_codes(&mut ctx.rng, d, n) };
                    let pad = if ctx.lite { ctx.shard % 32 } else { (rep * 5 + n) % 32 };
                    let p = Padded::<Dna>::new(&mut ctx.rng, pad, &codes, 2);
                    let s = p.slice();
                    ctx.eval();
                    let what = format!("DNA {:?} (len {n}) at pad {pad}", d.text(&codes[..n.min(60)]));
                    let want_w: Vec<u8> = codes.windows(3).map(|w| model::ncbi_amino(w[0], w[1], w[2])).collect();
                    let want_c: Vec<u8> = codes.chunks_exact(3).map(|w| model::ncbi_amino(w[0], w[1], w[2])).collect();
                    match observe(|| {
                        let w: Seq<Amino> = s.windows(3).map(|c| STANDARD.to_amino(c)).collect();
                        let c: Seq<Amino> = s.chunks(3).map(|c| STANDARD.to_amino(c)).collect();
                        (w, c)
                    }) {
                        Ok((w, c)) => {
                            check!(ctx, w.to_string().as_bytes() == want_w, "translate-by-windows|dna|wrong".to_string(), "{what}: windows(3) translation {:?} want {:?}", w.to_string(), String::from_utf8_lossy(&want_w));
                            check!(ctx, c.to_string().as_bytes() == want_c, "translate-by-chunks|dna|wrong".to_string(), "{what}: chunks(3) translation {:?} want {:?}", c.to_string(), String::from_utf8_lossy(&want_c));
                            // the amino sequence itself is a well-formed sequence of canonical codes
                            let canon: Vec<u8> = want_w.iter().map(|l| am.code_of_char(*l).unwrap()).collect();
                            check!(ctx, codes_of::<Amino>(&w) == canon, "translate-by-windows|amino|non-canonical-codes".to_string(), "{what}: collected amino sequence holds non-canonical codes");
                        }
                        Err(pm) => check!(ctx, false, format!("translate|dna|panics|{}", if n < 3 { "n<3" } else { "n>=3" }), "{what}: translating by windows/chunks panicked: {pm}"),
                    }
                    // the adaptors that go through the iterator's own nth(): skip / step_by / nth then continue
                    if rep < 3 && n <= 70 && !ctx.lite {
                        for (c, dt) in adaptor_laws(&|| s.windows(3), &|c: &SeqSlice<Dna>| STANDARD.to_amino(c).to_char() as u8, &want_w) {
                            check!(ctx, false, format!("translate-by-windows.{c}|dna"), "{what}: windows(3): {dt}");
                        }
                        for (c, dt) in adaptor_laws(&|| s.chunks(3), &|c: &SeqSlice<Dna>| STANDARD.to_amino(c).to_char() as u8, &want_c) {
                            check!(ctx, false, format!("translate-by-chunks.{c}|dna"), "{what}: chunks(3): {dt}");
                        }
                        // reading frames: windows(3).skip(f).step_by(3) == chunks(3) of the shifted sequence
                        for f in 0..3usize.min(n) {
                            let fr: Vec<u8> = s.windows(3).skip(f).step_by(3).map(|c| STANDARD.to_amino(c).to_char() as u8).collect();
                            let wf: Vec<u8> = codes[f..].chunks_exact(3).map(|w| model::ncbi_amino(w[0], w[1], w[2])).collect();
                            check!(ctx, fr == wf, "translate-reading-frame|dna|wrong".to_string(), "{what}: frame {f} via windows(3).skip({f}).step_by(3) = {:?} want {:?}", String::from_utf8_lossy(&fr), String::from_utf8_lossy(&wf));
                        }
                    }
                    cell!(ctx, "translate/{}", if n < 3 { "n<3".to_string() } else { len_class(2, n) });
                    ctx.nontrivial(fp(&[b"w", &codes, &[pad as u8]]));
                }
            }
            ctx.sample(|| json!({"sequences": "random DNA of every length 0..12 and word-boundary classes, at rotating offsets", "translated_by": ["windows(3)", "chunks(3)"]}));
        });
        ctx.note("exhaustive", json!(true));
        ctx.note("rule", json!("complete grid: 64 codons x 41 start positions (all 32 even bit offsets, both word-straddling placements) through STANDARD.to_amino, plus all 64 six-bit patterns through Amino::try/unsafe_from_bits, against NCBI table 1; random DNA (every length 0..12, boundary classes to 3 words, rotating offsets) translated by windows(3) and chunks(3) position by position, also through nth/skip/step_by (reading frames) and on long sequences (4..33 machine words). Distinct = (codon, position) resp. (sequence, pad)."));
    });
}
