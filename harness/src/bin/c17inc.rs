//! C17 accelerator — bio-seq-derive's `codec.rs` mounted by #[path]; `parse_width` is called for
//! all 255 non-zero largest discriminants x declared width {none, 1..=8} and `parse_variants` on generated
//! enum declarations, in both build profiles (overflow checks differ).  If the internal functions
//! are renamed this binary stops compiling: the stage is then reported as unavailable (neither
//! violation nor pass) and the verdict rests on the generated programs.
#![allow(dead_code)]

#[path = "../../repo/bio-seq-derive/src/codec.rs"]
mod codec;

use bsv::*;
use serde_json::json;
use syn::parse::Parser;

fn lit_value(s: &str) -> Option<u8> {
    let t = s.trim().trim_end_matches("u8").replace('_', "");
    if let Some(b) = t.strip_prefix("b'") {
        let inner = b.trim_end_matches('\'');
        if let Some(h) = inner.strip_prefix("\\x") {
            return u8::from_str_radix(h, 16).ok();
        }
        return inner.bytes().next();
    }
    if let Some(h) = t.strip_prefix("0x") {
        return u8::from_str_radix(h, 16).ok();
    }
    if let Some(b) = t.strip_prefix("0b") {
        return u8::from_str_radix(b, 2).ok();
    }
    t.parse().ok()
}

fn main() {
    run_main("C17", |ctx| {
        ctx.group("parse_width/all-256-maxima", |ctx| {
            for max in 1..=255u8 {
                let min = (8 - max.leading_zeros()) as u8;
                for declared in [None, Some(1u8), Some(2), Some(3), Some(4), Some(5), Some(6), Some(7), Some(8)] {
                    if ctx.over() {
                        break;
                    }
                    ctx.eval();
                    let attrs: Vec<syn::Attribute> = match declared {
                        None => vec![],
                        Some(w) => syn::Attribute::parse_outer.parse_str(&format!("#[bits({w})]")).unwrap(),
                    };
                    let got = observe(|| codec::parse_width(&attrs, max).map_err(|e| e.to_string()));
                    let want: Result<u8, ()> = match declared {
                        None => Ok(min),
                        Some(w) if w >= min => Ok(w),
                        Some(_) => Err(()),
                    };
                    let what = format!("parse_width(max discriminant {max}, {})", match declared { None => "no #[bits]".to_string(), Some(w) => format!("#[bits({w})]") });
                    match (&want, &got) {
                        (Ok(w), Ok(Ok(g))) => check!(ctx, g == w, "parse_width|derive|wrong-width".to_string(), "{what} = {g}, smallest width holding the largest discriminant is {min}"),
                        (Err(()), Ok(Err(_))) => {}
                        (Ok(w), Ok(Err(e))) => check!(ctx, false, "parse_width|derive|refuses-sufficient-width".to_string(), "{what} refused ({e}) although {w} bits suffice"),
                        (Err(()), Ok(Ok(g))) => check!(ctx, false, "parse_width|derive|accepts-too-small-width".to_string(), "{what} = Ok({g}) but {min} bits are needed"),
                        (_, Err(pm)) => check!(ctx, false, "parse_width|derive|panics".to_string(), "{what} panicked: {pm}"),
                    }
                    cell!(ctx, "parse_width/min{}/{}", min, match declared { None => "none", Some(w) if w >= min => "sufficient", _ => "too-small" });
                    nt!(ctx, "pw/{max}/{declared:?}");
                }
            }
            ctx.sample(|| json!({"function": "parse_width", "domain": "largest discriminant 1..=255 x {no #[bits], #[bits(1..=8)]}"}));
            ctx.note("exhaustive", json!(true));
        });
        ctx.group("parse_variants/generated", |ctx| {
            let styles = ["dec", "bin", "hex", "byte"];
            for r in 0..ctx.n(3000, 60_000, 10) {
                if ctx.over() {
                    break;
                }
                let nv = 2 + ctx.rng.below(39);
                let mut vals: Vec<u8> = (0..=255u8).collect();
                for i in 0..vals.len() {
                    let j = i + ctx.rng.below(vals.len() - i);
                    vals.swap(i, j);
                }
                let mut src = String::from("enum E {\n");
                let mut expect_arms: Vec<(u8, String)> = Vec::new();
                let mut expect_chars: Vec<(String, u8)> = Vec::new();
                let mut next = nv;
                let mut maxd = 0u8;
                for i in 0..nv {
                    let d = vals[i];
                    maxd = maxd.max(d);
                    let name = format!("{}v{}", (b'A' + (i % 26) as u8) as char, i);
                    let mut ch = name.as_bytes()[0];
                    if ctx.rng.chance(1, 3) {
                        ch = b'a' + (i % 26) as u8;
                        src.push_str(&format!("    #[display('{}')]\n", ch as char));
                    }
                    expect_arms.push((d, name.clone()));
                    if ctx.rng.chance(1, 3) && next + 3 < 256 {
                        let k = 1 + ctx.rng.below(3);
                        let alts: Vec<u8> = vals[next..next + k].to_vec();
                        next += k;
                        src.push_str(&format!("    #[alt({})]\n", alts.iter().map(|a| format!("{a:#04x}")).collect::<Vec<_>>().join(", ")));
                        for a in alts {
                            expect_arms.push((a, name.clone()));
                        }
                    }
                    let l = match styles[(r + i) % 4] {
                        "bin" => format!("{d:#b}"),
                        "hex" => format!("{d:#x}"),
                        "byte" if (0x21..0x7f).contains(&d) && d != b'\'' && d != b'\\' => format!("b'{}'", d as char),
                        _ => format!("{d}"),
                    };
                    src.push_str(&format!("    {name} = {l},\n"));
                    expect_chars.push((name, ch));
                }
                src.push_str("}\n");
                ctx.eval();
                let item: syn::ItemEnum = syn::parse_str(&src).expect("generated enum parses");
                match observe(|| codec::parse_variants(&item.variants).map_err(|e| e.to_string())) {
                    Ok(Ok(v)) => {
                        check!(ctx, v.max_discriminant == maxd, "parse_variants|derive|max-discriminant".to_string(), "max_discriminant {} want {maxd} for\n{src}", v.max_discriminant);
                        let got: Vec<(u8, String)> = v.alts.iter().filter_map(|t| {
                            let s = t.to_string();
                            let (l, r) = s.split_once("=>")?;
                            let id = r.rsplit("::").next()?.trim().trim_end_matches(')').trim().to_string();
                            Some((lit_value(l)?, id))
                        }).collect();
                        check!(ctx, got == expect_arms, "parse_variants|derive|bit-arms".to_string(), "try_from_bits arms {:?} want {:?}", &got[..got.len().min(8)], &expect_arms[..expect_arms.len().min(8)]);
                        check!(ctx, v.unsafe_alts.len() == v.alts.len(), "parse_variants|derive|unsafe-arms-differ".to_string(), "unsafe_from_bits has {} arms, try_from_bits {}", v.unsafe_alts.len(), v.alts.len());
                        let gotc: Vec<(String, u8)> = v.to_chars.iter().filter_map(|t| {
                            let s = t.to_string();
                            let (l, r) = s.split_once("=>")?;
                            Some((l.rsplit("::").next()?.trim().to_string(), lit_value(r)?))
                        }).collect();
                        check!(ctx, gotc == expect_chars, "parse_variants|derive|display-arms".to_string(), "to_char arms {:?} want {:?}", &gotc[..gotc.len().min(8)], &expect_chars[..expect_chars.len().min(8)]);
                        let ids: Vec<String> = v.idents.iter().map(|i| i.to_string()).collect();
                        check!(ctx, ids.iter().eq(expect_chars.iter().map(|(n, _)| n)), "parse_variants|derive|items-order".to_string(), "idents out of declaration order");
                    }
                    Ok(Err(e)) => check!(ctx, false, "parse_variants|derive|refuses-well-formed".to_string(), "refused: {e}\n{src}"),
                    Err(pm) => check!(ctx, false, "parse_variants|derive|panics".to_string(), "panicked: {pm}\n{src}"),
                }
                cell!(ctx, "parse_variants/variants={}", nv / 8 * 8);
                if !ctx.lite {
                    ctx.nontrivial(fp(&[src.as_bytes()]));
                }
                if r < 2 {
                    ctx.sample(|| json!({"function": "parse_variants", "declaration": src}));
                }
            }
        });
    });
}
