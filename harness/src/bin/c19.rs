//! C19 — cross-codec conversion and trimming preserve the underlying bases.
//! Oracle: same letters / singleton sets for conversions; trimming == strict parse of the span
//! between the first and last acceptable bytes.

use bio_seq::prelude::*;
use bitvec::prelude::*;
use bsv::*;
use serde_json::json;
use std::marker::PhantomData;

fn conversions(ctx: &mut Ctx) {
    let d = model::dna();
    ctx.group("dna-to-iupac-and-text", |ctx| {
        let mut lens = boundary_lengths(2, 3);
        lens.extend(long_lengths(2));
        if ctx.lite {
            lens = vec![0, 1, 33];
        }
        // far-from-small lengths (2^10 .. 2^16 bases, 65 .. 2049 words); none under the reduced budgets
        lens.extend(huge_lengths(ctx, 2));
        // (len, Some(pad)): exact-fit operands — the converted window is the tail of an allocation without spare words
        let plan = exact_plan(ctx, 2, lens);
        for (li, (n, exact_pad)) in plan.into_iter().enumerate() {
            let pads: Vec<usize> = if let Some(p) = exact_pad { vec![p] } else if n > 3000 { vec![li % 32, (li * 7 + 1) % 32] } else if ctx.lite { vec![(li + ctx.shard * 3) % 32] } else if ctx.tier == Tier::Thorough { (0..32).collect() } else { (0..32).filter(|o| (o + li) % 3 == 0).collect() };
            for pad in pads {
                if ctx.over() {
                    break;
                }
                let _fit = exact_pad.map(|_| exact_fit_mode());
                let x = if n > 1100 { structured_codes(&mut ctx.rng, d, n, li + pad) } else { cover_codes(&mut ctx.rng, d, n) };
                let p = Padded::<Dna>::new(&mut ctx.rng, pad, &x, 2);
                let s = p.slice();
                let text = d.text(&x);
                ctx.eval();
                let what = format!("DNA {:?} (len {n}) at pad {pad}", &text[..n.min(50)]);
                match observe(|| (Seq::<Iupac>::from(s), Seq::<Text>::from(s), Seq::<Iupac>::from(&s.to_owned()[..]), Seq::<Text>::from(&s.to_owned()[..]))) {
                    Ok((i, t, i2, t2)) => {
                        check!(ctx, i.len() == n && i.to_string() == text && i2 == i, "Seq<Iupac>::from(&SeqSlice<Dna>)|iupac|letters".to_string(), "{what}: converts to IUPAC {:?}", show::<Iupac>(&i));
                        let sets: Vec<u8> = x.iter().map(|c| [8u8, 4, 2, 1][*c as usize]).collect();
                        check!(ctx, codes_of::<Iupac>(&i) == sets, "Seq<Iupac>::from(&SeqSlice<Dna>)|iupac|not-singleton".to_string(), "{what}: IUPAC codes {:?} are not the singleton sets", codes_of::<Iupac>(&i));
                        check!(ctx, t.len() == n && t.to_string() == text && t2 == t, "Seq<Text>::from(&SeqSlice<Dna>)|text|letters".to_string(), "{what}: converts to text {:?}", show::<Text>(&t));
                        check!(ctx, codes_of::<Text>(&t) == text.as_bytes(), "Seq<Text>::from(&SeqSlice<Dna>)|text|bytes".to_string(), "{what}: text codes are not the ASCII letters");
                        // and back: text bases to DNA
                        let back: Result<Vec<Dna>, _> = t.iter().map(Dna::try_from).collect();
                        check!(ctx, back.as_ref().map(|v| v.iter().map(|b| b.to_bits()).collect::<Vec<u8>>()).ok() == Some(x.clone()), "Dna::try_from(text)|dna|roundtrip".to_string(), "{what}: text->DNA does not give the bases back");
                    }
                    Err(pm) => check!(ctx, false, "Seq::from(&SeqSlice<Dna>)|dna|panics".to_string(), "{what}: panicked {pm}"),
                }
                let (h, _) = s.verif_layout();
                ctx.cell_k(fp(&[b"conv", &[h as u8], len_class(2, n).as_bytes()]), || format!("convert/head{h}/{}", len_class(2, n)));
                ctx.nontrivial(fp(&[b"conv", &x, &[pad as u8]]));
            }
        }
        ctx.sample(|| json!({"from": "SeqSlice<Dna> at every length class and bit offsets, owned copies", "to": ["Seq<Iupac>", "Seq<text::Dna>"], "back": "dna::Dna::try_from(text::Dna)"}));
    });
    ctx.group("static-literals-and-seqarrays", |ctx| {
        macro_rules! lit {
            ($t:literal) => {{
                ctx.eval();
                let l: &'static SeqSlice<Dna> = dna!($t);
                let i: Seq<Iupac> = l.into();
                let t: Seq<Text> = l.into();
                check!(ctx, i.to_string() == $t && t.to_string() == $t && i.len() == $t.len(), "Seq::from(dna!)|dna|letters".to_string(), "dna!({:?}) converts to {:?} / {:?}", $t, i.to_string(), t.to_string());
                ctx.nontrivial_s($t);
            }};
        }
        lit!("");
        lit!("A");
        lit!("ACGT");
        lit!("ACGTACGTACGTACGTACGTACGTACGTACGT");
        lit!("ACGTACGTACGTACGTACGTACGTACGTACGTT");
        lit!("TTGACCAGTAGCATCGATCGATTAGACGTACGTTGACCAGTAGCATCGATCGATTAGACGTACGA");
        macro_rules! arr {
            ($n:literal, $w:literal) => {{
                for _ in 0..ctx.n(20, 300, 1) {
                    let x = rand_codes(&mut ctx.rng, d, $n);
                    let words = model::pack_words(2, &x);
                    let mut w = [0usize; $w];
                    for (i, v) in words.iter().enumerate() {
                        w[i] = *v as usize;
                    }
                    ctx.eval();
                    let arr: SeqArray<Dna, $n, $w> = SeqArray { _p: PhantomData, ba: BitArray::new(w) };
                    let i: Seq<Iupac> = Seq::from(&arr);
                    let t: Seq<Text> = Seq::from(&arr);
                    let i2: Seq<Iupac> = Seq::from(SeqArray::<Dna, $n, $w> { _p: PhantomData, ba: BitArray::new(w) });
                    let text = d.text(&x);
                    check!(ctx, i.to_string() == text && t.to_string() == text && i2 == i && i.len() == $n, "Seq::from(SeqArray<Dna>)|dna|letters".to_string(), "SeqArray<{},{}> {:?} converts to {:?} / {:?}", $n, $w, text, i.to_string(), t.to_string());
                    ctx.nontrivial(fp(&[b"arr", &x]));
                }
                cell!(ctx, "convert/seqarray/N{}W{}", $n, $w);
            }};
        }
        arr!(0, 0);
        arr!(1, 1);
        arr!(31, 1);
        arr!(32, 1);
        arr!(33, 2);
        arr!(64, 2);
        arr!(65, 3);
    });
    ctx.group("all-256-text-bytes-to-dna", |ctx| {
        for b in 0..=255u8 {
            ctx.eval();
            let t = Text::try_from_bits(b).expect("text codec takes any byte as bits");
            let r = observe(|| Dna::try_from(t));
            let want = d.code_of_char(b);
            match (want, r) {
                (Some(c), Ok(Ok(x))) => check!(ctx, x.to_bits() == c, "Dna::try_from(text)|dna|wrong-base".to_string(), "text byte {:?} converts to {:?}", b as char, x),
                (None, Ok(Err(e))) => check!(ctx, e == ParseBioError::UnrecognisedBase(b), "Dna::try_from(text)|dna|error-payload".to_string(), "text byte {b:#04x}: error {:?}", e),
                (None, Ok(Ok(x))) => check!(ctx, false, "Dna::try_from(text)|dna|accepts-non-base".to_string(), "text byte {b:#04x} ({:?}) converts to {:?}; only A, C, G, T may succeed", b as char, x),
                (Some(_), Ok(Err(e))) => check!(ctx, false, "Dna::try_from(text)|dna|refuses-base".to_string(), "text byte {:?} refused: {:?}", b as char, e),
                (_, Err(pm)) => check!(ctx, false, "Dna::try_from(text)|dna|panics".to_string(), "text byte {b:#04x}: panicked {pm}"),
            }
            cell!(ctx, "text-to-dna/{}", if want.is_some() { "base" } else if b == b'N' { "N" } else if b.is_ascii_alphabetic() { "other-letter" } else { "other" });
            ctx.nontrivial_s(&format!("t2d/{b}"));
        }
        // the same through the other ways of making a text symbol
        for b in [b'a', b'R', b'U', b'-', 0u8, 0xff] {
            ctx.eval();
            let r = observe(|| (Dna::try_from(Text::unsafe_from_bits(b)), Dna::try_from(Text::unsafe_from_ascii(b))));
            check!(ctx, matches!(r, Ok((Err(_), Err(_)))), "Dna::try_from(text)|dna|accepts-non-base".to_string(), "text symbol {b:#04x} made by the unchecked constructors converts: {:?}", r);
        }
    });
}

/// model of trim: strict parse of v[first_valid ..= last_valid]
fn trim_model(a: &model::Alphabet, v: &[u8]) -> Result<Vec<u8>, u8> {
    let first = v.iter().position(|b| a.is_char(*b));
    let Some(f) = first else { return Ok(vec![]) };
    let l = v.iter().rposition(|b| a.is_char(*b)).unwrap();
    let mut out = Vec::new();
    for &b in &v[f..=l] {
        match a.code_of_char(b) {
            Some(c) => out.push(c),
            None => return Err(b),
        }
    }
    Ok(out)
}

fn trim_one<C: CI>(ctx: &mut Ctx, v: &[u8], class: &str) {
    let a = C::alpha();
    let name = C::NAME;
    ctx.eval();
    let want = trim_model(a, v);
    // the input is handed over in a buffer of exactly its size (a read past its end leaves the allocation)
    let boxed: Box<[u8]> = v.to_vec().into_boxed_slice();
    let v: &[u8] = &boxed;
    let got = observe(|| Seq::<C>::trim_u8(v));
    let what = format!("{name} trim_u8({:?}) bytes {:02x?}", String::from_utf8_lossy(&v[..v.len().min(40)]), &v[..v.len().min(24)]);
    match (&want, got) {
        (Ok(codes), Ok(Ok(s))) => {
            check!(ctx, codes_of::<C>(&s) == *codes && s.len() == codes.len(), format!("trim_u8|{name}|wrong-content"), "{what}: gives {:?}, strict parse of the span gives {:?}", show::<C>(&s), a.text(codes));
            // equals strict parsing of that span
            if let Some(f) = v.iter().position(|b| a.is_char(*b)) {
                let l = v.iter().rposition(|b| a.is_char(*b)).unwrap();
                let strict = Seq::<C>::try_from(&v[f..=l]);
                check!(ctx, strict.as_ref().ok() == Some(&s), format!("trim_u8|{name}|differs-from-strict-parse"), "{what}: differs from try_from(span)");
            }
        }
        (Err(b), Ok(Err(e))) => check!(ctx, e == ParseBioError::UnrecognisedBase(*b), format!("trim_u8|{name}|wrong-error"), "{what}: reports {:?}, first interior bad byte is {b:#04x}", e),
        (Ok(codes), Ok(Err(e))) => check!(ctx, false, format!("trim_u8|{name}|rejects-clean-span"), "{what}: Err({:?}) but the span parses to {:?}", e, a.text(codes)),
        (Err(b), Ok(Ok(s))) => check!(ctx, false, format!("trim_u8|{name}|accepts-interior-bad-byte"), "{what}: gives Ok({:?}) although byte {b:#04x} inside the span is not a symbol character", show::<C>(&s)),
        (_, Err(pm)) => check!(ctx, false, format!("trim_u8|{name}|panics"), "{what}: panicked {pm}"),
    }
    cell!(ctx, "{name}/trim/{class}");
    if !ctx.lite {
        ctx.nontrivial(fp(&[b"trim", name.as_bytes(), v]));
    }
}

fn trims<C: CI>(ctx: &mut Ctx) {
    let a = C::alpha();
    let name = C::NAME;
    let chars = a.chars();
    let bad = a.bad_bytes();
    ctx.group(&format!("{name}/trim-exhaustive-small-alphabet"), |ctx| {
        // every string up to length 8 over 2 acceptable + 2 unacceptable bytes
        let alph = [chars[0], chars[chars.len() - 1], bad[ctx.rng.below(bad.len())], if a.is_char(b'n') { b'#' } else { b'n' }];
        let maxlen = if ctx.lite { 4 } else { 8 };
        let mut count = 0usize;
        for len in 0..=maxlen {
            for idx in 0..4usize.pow(len as u32) {
                count += 1;
                if ctx.lite && (!ctx.mine(count) || ctx.over()) {
                    continue;
                }
                let v: Vec<u8> = (0..len).map(|i| alph[(idx >> (2 * i)) & 3]).collect();
                trim_one::<C>(ctx, &v, "exhaustive");
            }
        }
        ctx.sample(|| json!({"codec": name, "alphabet_bytes": format!("{:02x?}", alph), "strings": "all of length 0..=8 (87381)"}));
    });
    ctx.group(&format!("{name}/trim-structured"), |ctx| {
        for r in 0..ctx.n(4000, 100_000, 6) {
            if ctx.over() {
                break;
            }
            let pre = ctx.rng.below(5);
            let post = ctx.rng.below(5);
            let ncore = match r % 5 { 0 => 0, 1 => 1, 2 => 2, _ if r % 40 == 3 && !ctx.lite => 3 + ctx.rng.below(34 * per_word(a.bits)), _ => 3 + ctx.rng.below(2 * per_word(a.bits)) };
            let mut core: Vec<u8> = (0..ncore).map(|_| *ctx.rng.pick(&chars)).collect();
            let mut class = if ncore == 0 { "no-acceptable-byte" } else { "clean-core" };
            // interior bad bytes: never first/last of the core; position len-2 over-represented
            if ncore >= 3 && r % 3 != 0 {
                let k = 1 + ctx.rng.below(2);
                for j in 0..k {
                    let pos = match (r + j) % 4 { 0 => ncore - 2, 1 => 1, _ => 1 + ctx.rng.below(ncore - 2) };
                    core[pos] = *ctx.rng.pick(&bad);
                }
                class = "interior-bad";
            }
            let mut v: Vec<u8> = (0..pre).map(|_| *ctx.rng.pick(&bad)).collect();
            v.extend(&core);
            v.extend((0..post).map(|_| *ctx.rng.pick(&bad)));
            trim_one::<C>(ctx, &v, class);
            if r < 2 {
                ctx.sample(|| json!({"codec": name, "input_bytes": format!("{:02x?}", v), "class": class}));
            }
        }
        trim_one::<C>(ctx, &[], "empty");
        trim_one::<C>(ctx, &bad[..bad.len().min(40)], "all-bad");
    });
    if !ctx.lite {
        ctx.group(&format!("{name}/trim-huge"), |ctx| {
            // far-from-small inputs: runs of 2^8 / 2^16 / 2^17 (-1, 0, +1) unacceptable bytes before, after and
            // inside the core, and cores of 2^10 .. 2^16 symbols; counters of the junk seen so far must not wrap
            let runs: Vec<usize> = [255usize, 256, 257, 65_535, 65_536, 65_537, 70_000, 131_072].into_iter().filter(|r| ctx.tier == Tier::Thorough || (r + ctx.seed as usize) % 2 == 0 || *r == 65_536).collect();
            for (k, run) in runs.into_iter().enumerate() {
                let b = bad[(k * 7) % bad.len()];
                let core: Vec<u8> = (0..5 + k).map(|_| *ctx.rng.pick(&chars)).collect();
                let junk = vec![b; run];
                let mut trailing = core.clone();
                trailing.extend(&junk);
                trim_one::<C>(ctx, &trailing, "huge-trailing-junk");
                let mut leading = junk.clone();
                leading.extend(&core);
                trim_one::<C>(ctx, &leading, "huge-leading-junk");
                let mut interior = core.clone();
                interior.extend(&junk);
                interior.extend(&core);
                trim_one::<C>(ctx, &interior, "huge-interior-junk");
                let mut both = junk.clone();
                both.extend(&core);
                both.extend(&junk);
                trim_one::<C>(ctx, &both, "huge-junk-both-ends");
            }
            for (k, n) in huge_lengths(ctx, a.bits).into_iter().enumerate().filter(|(k, _)| k % 3 == 0) {
                let mut v: Vec<u8> = vec![bad[k % bad.len()]; k % 4];
                v.extend((0..n).map(|_| *ctx.rng.pick(&chars)));
                if k % 2 == 0 {
                    let at = v.len() - 2;
                    v[at] = bad[(k + 1) % bad.len()];
                }
                v.extend(vec![bad[0]; (k + 1) % 3]);
                trim_one::<C>(ctx, &v, if k % 2 == 0 { "huge-core-interior-bad" } else { "huge-clean-core" });
            }
        });
    }
}

fn main() {
    run_main("C19", |ctx| {
        ctx.first_use_race(3, |t| {
            let d: Seq<Dna> = "ACGTTGCAACGTACGTACGTACGTACGTACGTTTGAC".try_into().unwrap();
            let i = Seq::<Iupac>::from(&d[t..]);
            let x = Seq::<Text>::from(&d[t..]);
            let back: Vec<Option<u8>> = x.iter().map(|b| Dna::try_from(b).ok().map(|q| q.to_bits())).collect();
            (
                i.to_string(), x.to_string(), back,
                Seq::<Dna>::trim_u8(b"xxACGTxx\n").map(|s| s.to_string()).map_err(|e| format!("{e:?}")),
                Seq::<Iupac>::trim_u8(b"  ACGTNRY  ").map(|s| s.to_string()).map_err(|e| format!("{e:?}")),
                Seq::<Amino>::trim_u8(b"12MAGIC34").map(|s| s.to_string()).map_err(|e| format!("{e:?}")),
                Seq::<Dna>::trim_u8(b"ACxGT").map(|s| s.to_string()).map_err(|e| format!("{e:?}")),
            )
        });
        conversions(ctx);
        for_each_codec!(trims, ctx);
        ctx.note("rule", json!("conversions: DNA slices of every length class at bit offsets (+owned copies, static literals, hand-built SeqArray<N,W>) to Seq<Iupac> and Seq<text::Dna>: same length, same letters, singleton sets, and text->DNA gives the bases back; all 256 text byte values (through try_from_bits and the unchecked constructors) to dna::Dna: Ok exactly for A,C,G,T else UnrecognisedBase(byte). Trimming, per codec: EVERY byte string of length 0..=8 over 2 acceptable + 2 unacceptable bytes (87381 strings) and structured inputs bad* core bad* with clean / empty / interior-bad cores (position len-2 over-represented), bad bytes from all 256 minus the alphabet; oracle = strict parse of the span between first and last acceptable byte. Distinct = input bytes."));
    });
}
