//! Reference model: alphabets, codes, display characters, complements and the
//! standard genetic code, written out from the *documentation* of bio-seq
//! (README, module docs of each codec, NCBI translation table 1).  Nothing in
//! this file is obtained from the library under test.

use std::sync::OnceLock;

/// One symbol of an alphabet as documented.
#[derive(Debug, Clone)]
pub struct Sym {
    /// canonical display character
    pub ch: u8,
    /// canonical bit code
    pub code: u8,
    /// documented alternative bit codes that decode to this symbol
    pub alt_codes: Vec<u8>,
    /// other characters that parse to this symbol (only the 1-bit codec has any)
    pub alt_chars: Vec<u8>,
}

#[derive(Debug, Clone)]
pub struct Alphabet {
    pub name: &'static str,
    pub bits: u8,
    pub syms: Vec<Sym>,
    /// complement on canonical codes, when the codec is complementable
    pub comp: Option<fn(u8) -> u8>,
    /// the 8-bit text codec accepts every bit pattern as "bits" (literal bytes)
    pub bits_identity: bool,
}

impl Alphabet {
    /// canonical code of a text byte, if the byte is a symbol character
    pub fn code_of_char(&self, b: u8) -> Option<u8> {
        for s in &self.syms {
            if s.ch == b || s.alt_chars.contains(&b) {
                return Some(s.code);
            }
        }
        None
    }
    /// canonical display character of a canonical or alternative code
    pub fn char_of_code(&self, c: u8) -> Option<u8> {
        if self.bits_identity {
            // documented as a literal interpretation of bytes of text
            return Some(c);
        }
        for s in &self.syms {
            if s.code == c || s.alt_codes.contains(&c) {
                return Some(s.ch);
            }
        }
        None
    }
    /// canonical code for a canonical or alternative code
    pub fn canon(&self, c: u8) -> Option<u8> {
        if self.bits_identity {
            return Some(c);
        }
        for s in &self.syms {
            if s.code == c || s.alt_codes.contains(&c) {
                return Some(s.code);
            }
        }
        None
    }
    pub fn is_char(&self, b: u8) -> bool {
        self.code_of_char(b).is_some()
    }
    /// all canonical codes, in table order
    pub fn codes(&self) -> Vec<u8> {
        self.syms.iter().map(|s| s.code).collect()
    }
    /// all characters that parse (canonical + alternative)
    pub fn chars(&self) -> Vec<u8> {
        let mut v = Vec::new();
        for s in &self.syms {
            v.push(s.ch);
            v.extend(&s.alt_chars);
        }
        v
    }
    /// canonical characters only
    pub fn canon_chars(&self) -> Vec<u8> {
        self.syms.iter().map(|s| s.ch).collect()
    }
    /// text of a model sequence (canonical display characters)
    pub fn text(&self, codes: &[u8]) -> String {
        codes
            .iter()
            .map(|&c| self.char_of_code(c).expect("model code") as char)
            .collect()
    }
    /// like `text`, with '#' for codes outside the table (used in failure messages)
    pub fn text_lossy(&self, codes: &[u8]) -> String {
        codes.iter().map(|&c| self.char_of_code(c).unwrap_or(b'#') as char).collect()
    }
    /// all bytes that are not symbol characters
    pub fn bad_bytes(&self) -> Vec<u8> {
        (0..=255u8).filter(|b| !self.is_char(*b)).collect()
    }
    pub fn comp_code(&self, c: u8) -> u8 {
        (self.comp.expect("complementable"))(c)
    }
}

fn sym(ch: u8, code: u8) -> Sym {
    Sym { ch, code, alt_codes: vec![], alt_chars: vec![] }
}

// ---------------------------------------------------------------- 2-bit DNA
pub fn dna() -> &'static Alphabet {
    static A: OnceLock<Alphabet> = OnceLock::new();
    A.get_or_init(|| Alphabet {
        name: "dna",
        bits: 2,
        syms: vec![sym(b'A', 0), sym(b'C', 1), sym(b'G', 2), sym(b'T', 3)],
        comp: Some(|c| 3 - c), // A<->T, C<->G
        bits_identity: false,
    })
}

// ---------------------------------------------------------------- 4-bit IUPAC
/// nucleotide set of an IUPAC letter as a mask A=8 C=4 G=2 T=1 (codec/iupac.rs table)
pub fn iupac_set_of_letter(l: u8) -> Option<u8> {
    const A: u8 = 8;
    const C: u8 = 4;
    const G: u8 = 2;
    const T: u8 = 1;
    Some(match l {
        b'A' => A,
        b'C' => C,
        b'G' => G,
        b'T' => T,
        b'R' => A | G,
        b'Y' => C | T,
        b'S' => C | G,
        b'W' => A | T,
        b'K' => G | T,
        b'M' => A | C,
        b'B' => C | G | T,
        b'D' => A | G | T,
        b'H' => A | C | T,
        b'V' => A | C | G,
        b'N' => A | C | G | T,
        b'-' => 0,
        _ => return None,
    })
}
pub const IUPAC_LETTERS: &[u8] = b"ACGTRYSWKMBDHVN-";

/// complement of a nucleotide set given as mask A=8 C=4 G=2 T=1: complement each member
pub fn iupac_set_comp(s: u8) -> u8 {
    let mut r = 0;
    if s & 8 != 0 {
        r |= 1;
    }
    if s & 1 != 0 {
        r |= 8;
    }
    if s & 4 != 0 {
        r |= 2;
    }
    if s & 2 != 0 {
        r |= 4;
    }
    r
}

pub fn iupac() -> &'static Alphabet {
    static A: OnceLock<Alphabet> = OnceLock::new();
    A.get_or_init(|| Alphabet {
        name: "iupac",
        bits: 4,
        syms: IUPAC_LETTERS
            .iter()
            .map(|&l| sym(l, iupac_set_of_letter(l).unwrap()))
            .collect(),
        comp: Some(iupac_set_comp),
        bits_identity: false,
    })
}

// ---------------------------------------------------------------- genetic code
/// NCBI translation table 1, codons in TCAG order (first base slowest)
pub const NCBI1: &[u8; 64] = b"FFLLSSSSYY**CC*WLLLLPPPPHHQQRRRRIIIMTTTTNNKKSSRRVVVVAAAADDEEGGGG";
const TCAG: [u8; 4] = [3, 1, 0, 2]; // dna codes of T, C, A, G

/// amino letter ('*' for stop) of a concrete DNA codon given as three 2-bit codes
pub fn ncbi_amino(b0: u8, b1: u8, b2: u8) -> u8 {
    let idx = |c: u8| TCAG.iter().position(|&x| x == c).unwrap();
    NCBI1[idx(b0) * 16 + idx(b1) * 4 + idx(b2)]
}
/// 6-bit pattern of a codon: base i at bits [2i, 2i+2)
pub fn codon_bits(b0: u8, b1: u8, b2: u8) -> u8 {
    b0 | (b1 << 2) | (b2 << 4)
}
pub const AMINO_LETTERS: &[u8] = b"ACDEFGHIKLMNPQRSTVWY*";
/// canonical codon of each amino symbol as documented next to each variant in codec/amino.rs
const AMINO_CANON: &[(&[u8; 3], u8)] = &[
    (b"GCA", b'A'),
    (b"TGC", b'C'),
    (b"GAC", b'D'),
    (b"GAA", b'E'),
    (b"TTC", b'F'),
    (b"GGA", b'G'),
    (b"CAC", b'H'),
    (b"ATA", b'I'),
    (b"AAA", b'K'),
    (b"CTA", b'L'),
    (b"ATG", b'M'),
    (b"AAC", b'N'),
    (b"CCA", b'P'),
    (b"CAA", b'Q'),
    (b"AGA", b'R'),
    (b"AGC", b'S'),
    (b"ACA", b'T'),
    (b"GTA", b'V'),
    (b"TGG", b'W'),
    (b"TAC", b'Y'),
    (b"TAA", b'*'),
];

pub fn amino() -> &'static Alphabet {
    static A: OnceLock<Alphabet> = OnceLock::new();
    A.get_or_init(|| {
        let d = dna();
        let mut syms = Vec::new();
        for (cod, letter) in AMINO_CANON {
            let c: Vec<u8> = cod.iter().map(|&b| d.code_of_char(b).unwrap()).collect();
            let code = codon_bits(c[0], c[1], c[2]);
            // every synonymous codon (NCBI table 1) is an alternative code
            let mut alts = Vec::new();
            for b0 in 0..4 {
                for b1 in 0..4 {
                    for b2 in 0..4 {
                        let bits = codon_bits(b0, b1, b2);
                        if ncbi_amino(b0, b1, b2) == *letter && bits != code {
                            alts.push(bits);
                        }
                    }
                }
            }
            syms.push(Sym { ch: *letter, code, alt_codes: alts, alt_chars: vec![] });
        }
        Alphabet { name: "amino", bits: 6, syms, comp: None, bits_identity: false }
    })
}

// ---------------------------------------------------------------- 8-bit text
pub fn text() -> &'static Alphabet {
    static A: OnceLock<Alphabet> = OnceLock::new();
    A.get_or_init(|| Alphabet {
        name: "text",
        bits: 8,
        syms: b"ACGTN".iter().map(|&b| sym(b, b)).collect(),
        comp: None,
        bits_identity: true,
    })
}

// ---------------------------------------------------------------- masked 4-bit DNA
fn rev4(b: u8) -> u8 {
    ((b & 8) >> 3) | ((b & 4) >> 1) | ((b & 2) << 1) | ((b & 1) << 3)
}
/// complement in the masked 4-bit codec: reversing the bit pattern (module doc);
/// gap/pad have two codes each, so canonicalise
fn mdna_comp(c: u8) -> u8 {
    let r = rev4(c);
    mdna().canon(r).unwrap()
}
pub fn mdna() -> &'static Alphabet {
    static A: OnceLock<Alphabet> = OnceLock::new();
    A.get_or_init(|| {
        let mut syms = vec![
            sym(b'A', 0b1000),
            sym(b'C', 0b0100),
            sym(b'G', 0b0010),
            sym(b'T', 0b0001),
            sym(b'a', 0b0111),
            sym(b'c', 0b1011),
            sym(b'g', 0b1101),
            sym(b't', 0b1110),
            sym(b'N', 0b0000),
            sym(b'n', 0b1111),
            sym(b'-', 0b1100),
            sym(b'.', 0b1010),
            sym(b'?', 0b0110),
            sym(b'!', 0b1001),
        ];
        syms[10].alt_codes = vec![0b0011];
        syms[11].alt_codes = vec![0b0101];
        Alphabet { name: "mdna", bits: 4, syms, comp: Some(mdna_comp), bits_identity: false }
    })
}
/// documented case toggle of the masked 4-bit codec: A,C,G,T,N toggle; gap and pad fixed.
/// Returns None for the two placeholder symbols, about which nothing is documented.
pub fn mdna_toggle_char(ch: u8) -> Option<u8> {
    Some(match ch {
        b'A' | b'C' | b'G' | b'T' | b'N' => ch.to_ascii_lowercase(),
        b'a' | b'c' | b'g' | b't' | b'n' => ch.to_ascii_uppercase(),
        b'-' | b'.' => ch,
        _ => return None,
    })
}

// ---------------------------------------------------------------- masked 5-bit IUPAC
/// nucleotide-set layout of the 5-bit codec: A=16 C=8 (mask=4) G=2 T=1
fn miupac_code_of_set(set: u8, masked: bool) -> u8 {
    let mut c = 0u8;
    if set & 8 != 0 {
        c |= 16;
    }
    if set & 4 != 0 {
        c |= 8;
    }
    if set & 2 != 0 {
        c |= 2;
    }
    if set & 1 != 0 {
        c |= 1;
    }
    if masked {
        c |= 4;
    }
    c
}
/// nucleotide set (A=8 C=4 G=2 T=1) of a 5-bit code
pub fn miupac_set_of_code(c: u8) -> u8 {
    let mut s = 0;
    if c & 16 != 0 {
        s |= 8;
    }
    if c & 8 != 0 {
        s |= 4;
    }
    if c & 2 != 0 {
        s |= 2;
    }
    if c & 1 != 0 {
        s |= 1;
    }
    s
}
fn miupac_comp(c: u8) -> u8 {
    miupac_code_of_set(iupac_set_comp(miupac_set_of_code(c)), c & 4 != 0)
}
pub fn miupac() -> &'static Alphabet {
    static A: OnceLock<Alphabet> = OnceLock::new();
    A.get_or_init(|| {
        let mut syms = Vec::new();
        for &l in IUPAC_LETTERS {
            let set = iupac_set_of_letter(l).unwrap();
            syms.push(sym(l, miupac_code_of_set(set, false)));
        }
        for &l in IUPAC_LETTERS {
            let set = iupac_set_of_letter(l).unwrap();
            let ch = if l == b'-' { b'.' } else { l.to_ascii_lowercase() };
            syms.push(sym(ch, miupac_code_of_set(set, true)));
        }
        Alphabet { name: "miupac", bits: 5, syms, comp: Some(miupac_comp), bits_identity: false }
    })
}
/// documented case table of the 5-bit codec
pub fn miupac_lower(ch: u8) -> u8 {
    match ch {
        b'-' => b'.',
        b'.' => b'.',
        c => c.to_ascii_lowercase(),
    }
}
pub fn miupac_upper(ch: u8) -> u8 {
    match ch {
        b'.' => b'-',
        b'-' => b'-',
        c => c.to_ascii_uppercase(),
    }
}

// ---------------------------------------------------------------- 1-bit degenerate
pub fn degen() -> &'static Alphabet {
    static A: OnceLock<Alphabet> = OnceLock::new();
    A.get_or_init(|| Alphabet {
        name: "degen",
        bits: 1,
        syms: vec![
            Sym { ch: b'W', code: 0, alt_codes: vec![], alt_chars: vec![b'A', b'T'] },
            Sym { ch: b'S', code: 1, alt_codes: vec![], alt_chars: vec![b'C', b'G'] },
        ],
        comp: Some(|c| c), // complements are erased by this encoding
        bits_identity: false,
    })
}

// ---------------------------------------------------------------- packing model
/// little-endian packing of a model sequence: symbol i at bits [i*bits, (i+1)*bits)
pub fn pack_words(bits: u8, codes: &[u8]) -> Vec<u64> {
    let nbits = codes.len() * bits as usize;
    let mut w = vec![0u64; nbits.div_ceil(64)];
    for (i, &c) in codes.iter().enumerate() {
        for j in 0..bits as usize {
            if (c >> j) & 1 == 1 {
                let p = i * bits as usize + j;
                w[p / 64] |= 1u64 << (p % 64);
            }
        }
    }
    w
}
/// integer value of a model sequence (must fit in 128 bits)
pub fn pack_u128(bits: u8, codes: &[u8]) -> u128 {
    let mut v = 0u128;
    for (i, &c) in codes.iter().enumerate() {
        v |= (c as u128) << (i * bits as usize);
    }
    v
}
/// the live bits of a raw image, masked to `nbits`
pub fn live_bits(raw: &[usize], nbits: usize) -> Vec<u64> {
    let mut w: Vec<u64> = raw.iter().take(nbits.div_ceil(64)).map(|&x| x as u64).collect();
    while w.len() < nbits.div_ceil(64) {
        w.push(0xDEAD_BEEF_DEAD_BEEF); // too short: will never match
    }
    if nbits % 64 != 0 {
        let last = w.len() - 1;
        w[last] &= (1u64 << (nbits % 64)) - 1;
    }
    w
}
