//! Run context of a monitor process: command line, budgets, named case groups
//! (each with its own PRNG stream and a journal line), coverage cells,
//! violation signatures and the final report (written last, with a completion
//! marker — a process that ends without it is never read as a pass).

use crate::rng::{fnv, Rng};
use serde_json::{json, Value};
use std::collections::{BTreeMap, BTreeSet, HashSet};
use std::io::Write;
use std::panic::{catch_unwind, AssertUnwindSafe};
use std::path::PathBuf;

#[derive(Clone, Copy, Debug, PartialEq, Eq)]
pub enum Tier {
    Quick,
    Thorough,
}

#[derive(Clone, Copy, Debug, PartialEq, Eq)]
pub enum Budget {
    /// native debug / release binary: full workload of the tier
    Native,
    /// AddressSanitizer build: full workload of the tier
    Asan,
    /// under Miri: structurally complete but heavily reduced
    Miri,
    /// under valgrind memcheck: reduced
    Memcheck,
}

#[derive(Debug, Clone)]
pub struct Viol {
    pub sig: String,
    pub group: String,
    pub detail: String,
    pub count: u64,
}

pub struct Ctx {
    pub prop: String,
    pub variant: String,
    pub tier: Tier,
    pub budget: Budget,
    pub seed: u64,
    pub shard: usize,
    pub nshards: usize,
    pub only: Option<String>,
    /// reduced bookkeeping (Miri / memcheck): coverage accounting is left to the native runs
    pub lite: bool,
    /// under reduced budgets: maximum number of evaluations per case group (deterministic bound)
    pub cap: u64,
    group_start: u64,
    /// under reduced budgets the case groups are striped over the shards: shard i runs every
    /// group whose running index is congruent to i (all groups are covered across the shards,
    /// in both assertion modes); disabled by --only and --no-stripe
    stripe: bool,
    group_index: usize,
    skipped_groups: u64,
    pub out: Option<PathBuf>,
    pub rng: Rng,
    pub evals: u64,
    pub cur_group: String,
    cells: BTreeSet<String>,
    cell_keys: HashSet<u64>,
    nontriv: HashSet<u64>,
    samples: Vec<Value>,
    samples_in_group: usize,
    viols: BTreeMap<String, Viol>,
    counters: BTreeMap<String, u64>,
    notes: BTreeMap<String, Value>,
    groups: Vec<(String, u64)>,
    journal: Option<std::fs::File>,
    start: std::time::Instant,
}

fn arg_value(args: &[String], name: &str) -> Option<String> {
    args.iter().position(|a| a == name).and_then(|i| args.get(i + 1).cloned())
}

impl Ctx {
    pub fn from_args(prop: &str) -> Ctx {
        let args: Vec<String> = std::env::args().collect();
        let tier = match arg_value(&args, "--tier").as_deref() {
            Some("thorough") => Tier::Thorough,
            _ => Tier::Quick,
        };
        let budget = match arg_value(&args, "--budget").as_deref() {
            Some("miri") => Budget::Miri,
            Some("asan") => Budget::Asan,
            Some("memcheck") => Budget::Memcheck,
            _ => Budget::Native,
        };
        let seed = arg_value(&args, "--seed").and_then(|s| s.parse().ok()).unwrap_or(1);
        let (shard, nshards) = arg_value(&args, "--shard")
            .and_then(|s| {
                let (a, b) = s.split_once('/')?;
                Some((a.parse().ok()?, b.parse().ok()?))
            })
            .unwrap_or((0, 1));
        let out = arg_value(&args, "--out").map(PathBuf::from);
        let journal = out.as_ref().and_then(|p| {
            let mut j = p.clone().into_os_string();
            j.push(".journal");
            std::fs::File::create(PathBuf::from(j)).ok()
        });
        Ctx {
            prop: prop.to_string(),
            variant: arg_value(&args, "--variant").unwrap_or_else(|| {
                if cfg!(debug_assertions) { "dbg".into() } else { "rel".into() }
            }),
            tier,
            budget,
            seed,
            shard,
            nshards: nshards.max(1),
            only: arg_value(&args, "--only"),
            lite: matches!(budget, Budget::Miri | Budget::Memcheck),
            cap: arg_value(&args, "--cap").and_then(|s| s.parse().ok()).unwrap_or(match budget {
                Budget::Miri => 16,
                Budget::Memcheck => 400,
                _ => u64::MAX,
            }),
            group_start: 0,
            stripe: matches!(budget, Budget::Miri | Budget::Memcheck) && nshards > 1 && arg_value(&args, "--only").is_none() && !args.iter().any(|a| a == "--no-stripe"),
            group_index: 0,
            skipped_groups: 0,
            out,
            rng: Rng::new(seed),
            evals: 0,
            cur_group: String::new(),
            cells: BTreeSet::new(),
            cell_keys: HashSet::new(),
            nontriv: HashSet::new(),
            samples: Vec::new(),
            samples_in_group: 0,
            viols: BTreeMap::new(),
            counters: BTreeMap::new(),
            notes: BTreeMap::new(),
            groups: Vec::new(),
            journal,
            start: std::time::Instant::now(),
        }
    }

    /// debug assertions compiled in?
    pub fn dbg(&self) -> bool {
        cfg!(debug_assertions)
    }
    pub fn is_miri(&self) -> bool {
        self.budget == Budget::Miri
    }
    pub fn reduced(&self) -> bool {
        matches!(self.budget, Budget::Miri | Budget::Memcheck)
    }

    /// a count that depends on the budget: (quick native, thorough native, miri); memcheck = 4 x miri
    pub fn n(&self, quick: usize, thorough: usize, miri: usize) -> usize {
        match self.budget {
            Budget::Miri => miri,
            Budget::Memcheck => (miri * 4).min(quick),
            _ => match self.tier {
                Tier::Quick => quick,
                Tier::Thorough => thorough,
            },
        }
    }
    /// for strided enumerations under reduced budgets: does item `i` belong to this shard?
    pub fn mine(&self, i: usize) -> bool {
        i % self.nshards == self.shard
    }

    /// for whole case groups under reduced budgets: does group number `i` belong to this shard?  When the groups
    /// are striped over the shards anyway (the default) every group is offered to `group()`, which does the
    /// distribution; filtering twice would leave most groups to no shard at all.
    pub fn mine_group(&self, i: usize) -> bool {
        self.stripe || self.mine(i)
    }

    /// Run a named case group: own PRNG stream, journalled before it starts, panics that
    /// escape it are recorded as violations (every intentional out-of-contract call is
    /// wrapped by the monitor itself, so an escaping panic means the library panicked
    /// where the property promises a value).
    pub fn group(&mut self, name: &str, f: impl FnOnce(&mut Ctx)) {
        if let Some(o) = &self.only {
            if !name.contains(o.as_str()) {
                return;
            }
        }
        if self.stripe {
            let gi = self.group_index;
            self.group_index += 1;
            // rotate by one every `nshards` groups so that a monitor with exactly `nshards` groups per
            // codec does not hand all groups of one kind to the same shard
            if (gi + gi / self.nshards) % self.nshards != self.shard {
                self.skipped_groups += 1;
                return;
            }
        }
        self.cur_group = name.to_string();
        self.samples_in_group = 0;
        self.rng = Rng::derive(self.seed.wrapping_add(self.shard as u64 * 7919), name);
        if let Some(j) = &mut self.journal {
            let _ = writeln!(j, "group-start {} rng={:#x}", name, self.rng.0);
            let _ = j.flush();
        }
        let before = self.evals;
        self.group_start = before;
        let r = catch_unwind(AssertUnwindSafe(|| f(self)));
        if let Err(e) = r {
            let msg = crate::util::panic_message(&e);
            let loc = crate::util::take_last_panic_location();
            let sig = format!("{}|escaped-panic|{}|{}", self.prop, name, short_loc(&loc));
            self.viol(&sig, format!("panic escaped group {name}: {msg} at {loc}"));
        }
        let n = self.evals - before;
        self.groups.push((name.to_string(), n));
    }

    /// Run a group in every process regardless of striping (used for workloads that must come first
    /// in the process, or that every sanitizer shard has to see).
    pub fn group_everywhere(&mut self, name: &str, f: impl FnOnce(&mut Ctx)) {
        let st = std::mem::replace(&mut self.stripe, false);
        self.group(name, f);
        self.stripe = st;
    }

    /// Concurrent first use.  `threads` threads are released together and each evaluates `f(t)`
    /// (t = its index); after they have been joined, `f(t)` is evaluated again on the calling
    /// thread.  `f` must be a deterministic function of `t`, so the two results have to be equal,
    /// and no thread may panic.  Call this before anything else in the process has used the APIs
    /// in `f`: the point is the *first* use of whatever process-wide state they keep (lazily built
    /// tables, caches).  Under Miri the data-race detector sees every unsynchronised pair of
    /// accesses between the threads; natively a torn or half-initialised table shows as a wrong
    /// result.  Runs in every process (never striped away).
    pub fn first_use_race<T>(&mut self, threads: usize, f: impl Fn(usize) -> T + Sync)
    where
        T: PartialEq + std::fmt::Debug + Send,
    {
        self.group_everywhere("first-use-race", |ctx| {
            let barrier = std::sync::Barrier::new(threads);
            let f = &f;
            let b = &barrier;
            let conc: Vec<Result<T, String>> = std::thread::scope(|sc| {
                let hs: Vec<_> = (0..threads)
                    .map(|t| {
                        sc.spawn(move || {
                            b.wait();
                            f(t)
                        })
                    })
                    .collect();
                hs.into_iter().map(|h| h.join().map_err(|e| crate::util::panic_message(&e))).collect()
            });
            for (t, r) in conc.into_iter().enumerate() {
                ctx.eval();
                match r {
                    Ok(v) => {
                        let again = f(t);
                        if v != again {
                            let sig = format!("{}|first-use-race|result-differs", ctx.prop);
                            ctx.viol(&sig, format!("thread {t} of {threads} racing on first use got {:?}; the same calls afterwards give {:?}", v, again));
                        }
                    }
                    Err(pm) => {
                        let sig = format!("{}|first-use-race|thread-panicked", ctx.prop);
                        ctx.viol(&sig, format!("thread {t} of {threads} racing on first use panicked: {pm}"));
                    }
                }
            }
            if !ctx.lite {
                ctx.cell(format!("first-use-race/{threads}-threads"));
            }
            ctx.nontrivial_s("first-use-race");
            ctx.count("first-use-race-threads", threads as u64);
        });
    }

    /// under reduced budgets: has this group used up its evaluation allowance?
    pub fn over(&self) -> bool {
        self.lite && self.evals - self.group_start >= self.cap
    }
    pub fn eval(&mut self) {
        self.evals += 1;
    }
    pub fn evals_add(&mut self, n: u64) {
        self.evals += n;
    }
    pub fn cell(&mut self, c: String) {
        self.cells.insert(c);
    }
    /// cheap form for hot loops: the string is only built the first time `key` is seen
    pub fn cell_k(&mut self, key: u64, f: impl FnOnce() -> String) {
        if !self.lite && self.cell_keys.insert(key) {
            self.cells.insert(f());
        }
    }
    pub fn has_cell(&self, c: &str) -> bool {
        self.cells.contains(c)
    }
    /// register a distinct non-trivial case by fingerprint
    pub fn nontrivial(&mut self, fp: u64) {
        if !self.lite {
            self.nontriv.insert(fp);
        }
    }
    pub fn nontrivial_s(&mut self, s: &str) {
        if !self.lite {
            self.nontriv.insert(fnv(s.as_bytes()));
        }
    }
    pub fn count(&mut self, name: &str, n: u64) {
        *self.counters.entry(name.to_string()).or_insert(0) += n;
    }
    pub fn note(&mut self, name: &str, v: Value) {
        self.notes.insert(name.to_string(), v);
    }
    /// keep a few written-out cases per group
    pub fn sample(&mut self, f: impl FnOnce() -> Value) {
        if !self.lite && self.samples_in_group < 2 && self.samples.len() < 24 {
            self.samples_in_group += 1;
            let v = f();
            self.samples.push(json!({"group": self.cur_group, "case": v}));
        }
    }
    pub fn viol(&mut self, sig: &str, detail: String) {
        let group = self.cur_group.clone();
        let e = self.viols.entry(sig.to_string()).or_insert_with(|| Viol {
            sig: sig.to_string(),
            group,
            detail: detail.chars().take(1500).collect(),
            count: 0,
        });
        e.count += 1;
    }
    pub fn n_viol_sigs(&self) -> usize {
        self.viols.len()
    }
    /// total number of violations recorded so far (all signatures)
    pub fn n_viols(&self) -> u64 {
        self.viols.values().map(|v| v.count).sum()
    }

    pub fn finish(mut self) {
        let wall = self.start.elapsed().as_secs_f64();
        let viols: Vec<Value> = self
            .viols
            .values()
            .map(|v| json!({"sig": v.sig, "group": v.group, "detail": v.detail, "count": v.count}))
            .collect();
        let cells: Vec<&String> = self.cells.iter().collect();
        let rep = json!({
            "completed": true,
            "property": self.prop,
            "variant": self.variant,
            "tier": if self.tier == Tier::Quick {"quick"} else {"thorough"},
            "budget": format!("{:?}", self.budget).to_lowercase(),
            "seed": self.seed,
            "shard": format!("{}/{}", self.shard, self.nshards),
            "only": self.only,
            "debug_assertions": cfg!(debug_assertions),
            "evaluations": self.evals,
            "distinct_cells": self.cells.len(),
            "cells": cells,
            "distinct_nontrivial": self.nontriv.len(),
            "nontrivial_fps": self.nontriv.iter().take(200_000).collect::<Vec<_>>(),
            "samples": self.samples,
            "counters": self.counters,
            "notes": self.notes,
            "groups": self.groups,
            "groups_left_to_other_shards": self.skipped_groups,
            "exact_fit_operands": {"built": crate::util::exact_fit_stats().0, "without_spare_words": crate::util::exact_fit_stats().1},
            "violations": viols,
            "wall_s": wall,
        });
        let s = serde_json::to_string(&rep).unwrap();
        match &self.out {
            Some(p) => {
                let mut tmp = p.clone().into_os_string();
                tmp.push(".tmp");
                let tmp = PathBuf::from(tmp);
                std::fs::write(&tmp, &s).expect("write report");
                std::fs::rename(&tmp, p).expect("rename report");
            }
            None => {}
        }
        if let Some(j) = &mut self.journal {
            let _ = writeln!(j, "completed");
        }
        println!(
            "BSV-DONE property={} variant={} budget={:?} evals={} cells={} nontrivial={} violations={}",
            self.prop,
            self.variant,
            self.budget,
            self.evals,
            self.cells.len(),
            self.nontriv.len(),
            self.viols.len()
        );
    }
}

fn short_loc(loc: &str) -> String {
    // file:line without the column, path reduced to the last two components
    let mut parts = loc.split(':');
    let file = parts.next().unwrap_or("");
    let line = parts.next().unwrap_or("");
    let comps: Vec<&str> = file.rsplit('/').take(2).collect();
    let f: Vec<&str> = comps.into_iter().rev().collect();
    format!("{}:{}", f.join("/"), line)
}

/// Entry point used by every monitor binary.
pub fn run_main(prop: &str, f: impl FnOnce(&mut Ctx)) {
    crate::util::install_quiet_panic_hook();
    let mut ctx = Ctx::from_args(prop);
    f(&mut ctx);
    ctx.finish();
}

/// `check!(ctx, cond, "api|codec|class", "detail {}", x)` — records a violation with
/// signature `<prop>|api|codec|class` when `cond` is false.
#[macro_export]
macro_rules! check {
    ($ctx:expr, $cond:expr, $sig:expr, $($fmt:tt)+) => {
        if !($cond) {
            let sig = format!("{}|{}", $ctx.prop, $sig);
            $ctx.viol(&sig, format!($($fmt)+));
        }
    };
}

#[macro_export]
macro_rules! cell {
    ($ctx:expr, $($fmt:tt)+) => {
        if !$ctx.lite {
            $ctx.cell(format!($($fmt)+))
        }
    };
}

/// register a distinct non-trivial case named by a format string (skipped under reduced budgets)
#[macro_export]
macro_rules! nt {
    ($ctx:expr, $($fmt:tt)+) => {
        if !$ctx.lite {
            $ctx.nontrivial_s(&format!($($fmt)+))
        }
    };
}
