//! Registry of the seven built-in codecs and of the k-mer instantiations
//! ("every K that fits" means every K listed here; the lists are complete
//! for usize / u64 / u128 except for the 1-bit codec, which uses a boundary set).

use crate::model::{self, Alphabet};
use bio_seq::codec::Codec;
use bio_seq::kmer::KmerStorage;

pub use bio_seq::codec::amino::Amino;
pub use bio_seq::codec::degenerate::Dna as Degen;
pub use bio_seq::codec::dna::Dna;
pub use bio_seq::codec::iupac::Iupac;
pub use bio_seq::codec::masked::Dna as MDna;
pub use bio_seq::codec::masked::Iupac as MIupac;
pub use bio_seq::codec::text::Dna as Text;

/// A built-in codec together with its documented alphabet.
pub trait CI: Codec + 'static {
    const NAME: &'static str;
    fn alpha() -> &'static Alphabet;
}
macro_rules! ci {
    ($t:ty, $n:literal, $f:path) => {
        impl CI for $t {
            const NAME: &'static str = $n;
            fn alpha() -> &'static Alphabet {
                $f()
            }
        }
    };
}
ci!(Dna, "dna", model::dna);
ci!(Iupac, "iupac", model::iupac);
ci!(Amino, "amino", model::amino);
ci!(Text, "text", model::text);
ci!(MDna, "mdna", model::mdna);
ci!(MIupac, "miupac", model::miupac);
ci!(Degen, "degen", model::degen);

/// k-mer storage types with the conversions the monitors need
pub trait KS: KmerStorage + 'static {
    const NAME: &'static str;
    const WIDTH: usize;
    fn to_u128(self) -> u128;
    fn from_u128(v: u128) -> Self;
}
impl KS for usize {
    const NAME: &'static str = "usize";
    const WIDTH: usize = 64;
    fn to_u128(self) -> u128 {
        self as u128
    }
    fn from_u128(v: u128) -> Self {
        v as usize
    }
}
impl KS for u64 {
    const NAME: &'static str = "u64";
    const WIDTH: usize = 64;
    fn to_u128(self) -> u128 {
        self as u128
    }
    fn from_u128(v: u128) -> Self {
        v as u64
    }
}
impl KS for u128 {
    const NAME: &'static str = "u128";
    const WIDTH: usize = 128;
    fn to_u128(self) -> u128 {
        self
    }
    fn from_u128(v: u128) -> Self {
        v
    }
}

/// `for_each_codec!(f, ctx)` calls `f::<C>(ctx)` for the seven built-in codecs.
#[macro_export]
macro_rules! for_each_codec {
    ($f:ident, $ctx:expr $(, $a:expr)*) => {{
        $f::<$crate::Dna>(&mut *$ctx $(, $a)*);
        $f::<$crate::Iupac>(&mut *$ctx $(, $a)*);
        $f::<$crate::Amino>(&mut *$ctx $(, $a)*);
        $f::<$crate::Text>(&mut *$ctx $(, $a)*);
        $f::<$crate::MDna>(&mut *$ctx $(, $a)*);
        $f::<$crate::MIupac>(&mut *$ctx $(, $a)*);
        $f::<$crate::Degen>(&mut *$ctx $(, $a)*);
    }};
}
/// the five complementable codecs
#[macro_export]
macro_rules! for_each_comp_codec {
    ($f:ident, $ctx:expr $(, $a:expr)*) => {{
        $f::<$crate::Dna>(&mut *$ctx $(, $a)*);
        $f::<$crate::Iupac>(&mut *$ctx $(, $a)*);
        $f::<$crate::MDna>(&mut *$ctx $(, $a)*);
        $f::<$crate::MIupac>(&mut *$ctx $(, $a)*);
        $f::<$crate::Degen>(&mut *$ctx $(, $a)*);
    }};
}

#[macro_export]
macro_rules! with_ks {
    ($f:ident, $c:ty, $s:ty, [$($k:literal),*], $ctx:expr) => {{
        $( $f::<$c, $k, $s>(&mut *$ctx); )*
    }};
}

/// every (codec, K) that fits in 64 bits, for storage `$s` (usize or u64)
#[macro_export]
macro_rules! for_each_k64 {
    ($f:ident, $s:ty, $ctx:expr) => {{
        $crate::with_ks!($f, $crate::Dna, $s, [1,2,3,4,5,6,7,8,9,10,11,12,13,14,15,16,17,18,19,20,21,22,23,24,25,26,27,28,29,30,31,32], $ctx);
        $crate::with_ks!($f, $crate::Iupac, $s, [1,2,3,4,5,6,7,8,9,10,11,12,13,14,15,16], $ctx);
        $crate::with_ks!($f, $crate::MDna, $s, [1,2,3,4,5,6,7,8,9,10,11,12,13,14,15,16], $ctx);
        $crate::with_ks!($f, $crate::Amino, $s, [1,2,3,4,5,6,7,8,9,10], $ctx);
        $crate::with_ks!($f, $crate::Text, $s, [1,2,3,4,5,6,7,8], $ctx);
        $crate::with_ks!($f, $crate::MIupac, $s, [1,2,3,4,5,6,7,8,9,10,11,12], $ctx);
        $crate::with_ks!($f, $crate::Degen, $s, [1,2,7,8,31,32,33,63,64], $ctx);
    }};
}
/// every (codec, K) that fits in 128 bits but not in 64, plus a small-K boundary set, for u128
#[macro_export]
macro_rules! for_each_k128 {
    ($f:ident, $ctx:expr) => {{
        $crate::with_ks!($f, $crate::Dna, u128, [1,2,3,16,31,32,33,34,35,36,37,38,39,40,41,42,43,44,45,46,47,48,49,50,51,52,53,54,55,56,57,58,59,60,61,62,63,64], $ctx);
        $crate::with_ks!($f, $crate::Iupac, u128, [1,2,15,16,17,18,19,20,21,22,23,24,25,26,27,28,29,30,31,32], $ctx);
        $crate::with_ks!($f, $crate::MDna, u128, [1,16,17,24,31,32], $ctx);
        $crate::with_ks!($f, $crate::Amino, u128, [1,2,10,11,12,13,14,15,16,17,18,19,20,21], $ctx);
        $crate::with_ks!($f, $crate::Text, u128, [1,8,9,10,11,12,13,14,15,16], $ctx);
        $crate::with_ks!($f, $crate::MIupac, u128, [1,12,13,14,15,16,17,18,19,20,21,22,23,24,25], $ctx);
        $crate::with_ks!($f, $crate::Degen, u128, [1,64,65,127,128], $ctx);
    }};
}
/// a small representative set, used under Miri and where compile time matters
#[macro_export]
macro_rules! for_each_k_small {
    ($f:ident, $s:ty, $ctx:expr) => {{
        $crate::with_ks!($f, $crate::Dna, $s, [1, 5, 31, 32], $ctx);
        $crate::with_ks!($f, $crate::Iupac, $s, [3, 16], $ctx);
        $crate::with_ks!($f, $crate::Amino, $s, [3, 10], $ctx);
        $crate::with_ks!($f, $crate::Text, $s, [2, 8], $ctx);
        $crate::with_ks!($f, $crate::MDna, $s, [4], $ctx);
        $crate::with_ks!($f, $crate::MIupac, $s, [3, 12], $ctx);
        $crate::with_ks!($f, $crate::Degen, $s, [7, 64], $ctx);
    }};
}

/// k-mers that need more than one machine word (u128 storage only), small set for reduced budgets
#[macro_export]
macro_rules! for_each_k_small128 {
    ($f:ident, $ctx:expr) => {{
        $crate::with_ks!($f, $crate::Dna, u128, [33, 64], $ctx);
        $crate::with_ks!($f, $crate::Iupac, u128, [17, 32], $ctx);
        $crate::with_ks!($f, $crate::Amino, u128, [11, 21], $ctx);
        $crate::with_ks!($f, $crate::Text, u128, [9, 16], $ctx);
        $crate::with_ks!($f, $crate::MDna, u128, [17], $ctx);
        $crate::with_ks!($f, $crate::MIupac, u128, [13, 25], $ctx);
        $crate::with_ks!($f, $crate::Degen, u128, [65, 128], $ctx);
    }};
}
