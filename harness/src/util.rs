//! Panic observation, recording hashers and sequence construction helpers.

use crate::codecs::CI;
use crate::model::Alphabet;
use crate::rng::Rng;
use bio_seq::prelude::*;
use std::any::Any;
use std::cell::RefCell;
use std::hash::Hasher;
use std::panic::{catch_unwind, AssertUnwindSafe};

thread_local! {
    static LAST_PANIC_LOC: RefCell<String> = const { RefCell::new(String::new()) };
}

/// Replace the default hook by one that prints nothing and remembers the location.
pub fn install_quiet_panic_hook() {
    std::panic::set_hook(Box::new(|info| {
        let loc = info
            .location()
            .map(|l| format!("{}:{}:{}", l.file(), l.line(), l.column()))
            .unwrap_or_default();
        LAST_PANIC_LOC.with(|c| *c.borrow_mut() = loc);
    }));
}
pub fn take_last_panic_location() -> String {
    LAST_PANIC_LOC.with(|c| std::mem::take(&mut *c.borrow_mut()))
}
pub fn panic_message(e: &Box<dyn Any + Send>) -> String {
    if let Some(s) = e.downcast_ref::<&str>() {
        s.to_string()
    } else if let Some(s) = e.downcast_ref::<String>() {
        s.clone()
    } else {
        "<non-string panic payload>".to_string()
    }
}

/// Observe a call: `Ok(value)` or `Err("message at location")` when it panicked.
pub fn observe<R>(f: impl FnOnce() -> R) -> Result<R, String> {
    match catch_unwind(AssertUnwindSafe(f)) {
        Ok(r) => Ok(r),
        Err(e) => {
            let m = panic_message(&e);
            let l = take_last_panic_location();
            Err(format!("{m} at {l}"))
        }
    }
}

// ------------------------------------------------------------------ hashers

/// Records everything a value feeds to a hasher.
#[derive(Default, Clone, Debug)]
pub struct RecHasher {
    pub bytes: Vec<u8>,
    pub writes: usize,
}
impl Hasher for RecHasher {
    fn write(&mut self, b: &[u8]) {
        self.bytes.extend_from_slice(b);
        self.writes += 1;
    }
    fn finish(&self) -> u64 {
        crate::rng::fnv(&self.bytes)
    }
}
pub fn hash_stream<T: std::hash::Hash + ?Sized>(v: &T) -> Vec<u8> {
    let mut h = RecHasher::default();
    v.hash(&mut h);
    h.bytes
}
pub fn hash_stream_w<T: std::hash::Hash + ?Sized>(v: &T) -> (Vec<u8>, usize) {
    let mut h = RecHasher::default();
    v.hash(&mut h);
    (h.bytes, h.writes)
}
pub fn default_hash<T: std::hash::Hash + ?Sized>(v: &T) -> u64 {
    let mut h = std::collections::hash_map::DefaultHasher::new();
    v.hash(&mut h);
    h.finish()
}

/// A deliberately weak hasher (only the number of bytes written counts): forces collisions
/// so that `Eq` has to do the work in hash maps.
#[derive(Default, Clone)]
pub struct WeakHasher(u64);
impl Hasher for WeakHasher {
    fn write(&mut self, b: &[u8]) {
        self.0 = self.0.wrapping_add(b.len() as u64);
    }
    fn finish(&self) -> u64 {
        self.0 & 7
    }
}
#[derive(Default, Clone)]
pub struct WeakState;
impl std::hash::BuildHasher for WeakState {
    type Hasher = WeakHasher;
    fn build_hasher(&self) -> WeakHasher {
        WeakHasher::default()
    }
}

// ------------------------------------------------------------------ sequences

/// Build the real sequence for a model sequence by parsing its text.
pub fn mk<C: CI>(codes: &[u8]) -> Seq<C> {
    let t = C::alpha().text(codes);
    Seq::<C>::try_from(t.as_str()).unwrap_or_else(|e| panic!("harness: model text {t:?} rejected: {e:?}"))
}
/// Observe the codes of a real slice (through iteration and `to_bits`).
/// A decode that panics (invalid bit pattern) yields a marker vector that equals no model value.
pub fn codes_of<C: CI>(s: &SeqSlice<C>) -> Vec<u8> {
    match observe(|| s.iter().map(|x| x.to_bits()).collect::<Vec<u8>>()) {
        Ok(v) => v,
        Err(_) => vec![0xEE; s.len() + 1],
    }
}
/// display that cannot panic (for failure messages)
pub fn show<C: CI>(s: &SeqSlice<C>) -> String {
    observe(|| s.to_string()).unwrap_or_else(|e| format!("<display panicked: {e}>"))
}
pub fn rand_codes(rng: &mut Rng, a: &Alphabet, n: usize) -> Vec<u8> {
    let codes = a.codes();
    (0..n).map(|_| *rng.pick(&codes)).collect()
}
/// n codes in which every symbol of the alphabet appears as early as possible
pub fn cover_codes(rng: &mut Rng, a: &Alphabet, n: usize) -> Vec<u8> {
    let codes = a.codes();
    let start = rng.below(codes.len());
    (0..n)
        .map(|i| if i < codes.len() { codes[(start + i) % codes.len()] } else { *rng.pick(&codes) })
        .collect()
}
/// symbols per 64-bit word (rounded down)
pub fn per_word(bits: u8) -> usize {
    64 / bits as usize
}
/// Length classes: 0, 1, 2 and the lengths around each of the first `words` word boundaries.
pub fn boundary_lengths(bits: u8, words: usize) -> Vec<usize> {
    let mut v = vec![0usize, 1, 2, 3];
    for k in 1..=words {
        let b = (64 * k) / bits as usize;
        for d in [-2i64, -1, 0, 1, 2] {
            let x = b as i64 + d;
            if x >= 0 {
                v.push(x as usize);
            }
        }
    }
    v.sort_unstable();
    v.dedup();
    v
}
pub fn len_class(bits: u8, n: usize) -> String {
    if n <= 2 {
        return format!("{n}");
    }
    let nb = n * bits as usize;
    let w = nb / 64;
    let r = nb % 64;
    let near = if r == 0 {
        "eq"
    } else if r <= 2 * bits as usize {
        "just-over"
    } else if r >= 64 - 2 * bits as usize {
        "just-under"
    } else {
        "mid"
    };
    format!("w{}{}", w.min(4), near)
}
/// does any symbol of a slice starting at bit `head` with `n` symbols straddle a word boundary?
pub fn straddles(bits: u8, head: usize, n: usize) -> bool {
    let b = bits as usize;
    (0..n).any(|i| {
        let s = head + i * b;
        s / 64 != (s + b - 1) / 64
    })
}

/// A parent sequence `pad ++ codes ++ tail`; the window `[pad, pad+len)` is the content.
pub struct Padded<C: CI> {
    pub parent: Seq<C>,
    pub pad: usize,
    pub len: usize,
}
impl<C: CI> Padded<C> {
    pub fn new(rng: &mut Rng, pad: usize, codes: &[u8], tail: usize) -> Self {
        let a = C::alpha();
        let mut all = rand_codes(rng, a, pad);
        all.extend_from_slice(codes);
        all.extend(rand_codes(rng, a, tail));
        Padded { parent: mk::<C>(&all), pad, len: codes.len() }
    }
    pub fn slice(&self) -> &SeqSlice<C> {
        &self.parent[self.pad..self.pad + self.len]
    }
}
/// number of distinct achievable start offsets: pads 0..n give all of them
pub fn n_offsets(bits: u8) -> usize {
    let mut g = bits as usize;
    let mut b = 64usize;
    while b != 0 {
        let t = g % b;
        g = b;
        b = t;
    }
    64 / g
}
pub fn fp(parts: &[&[u8]]) -> u64 {
    let mut h: u64 = 0xcbf2_9ce4_8422_2325;
    for p in parts {
        for &b in *p {
            h ^= b as u64;
            h = h.wrapping_mul(0x0000_0100_0000_01b3);
        }
        h ^= 0xff;
        h = h.wrapping_mul(0x0000_0100_0000_01b3);
    }
    h
}
