//! Panic observation, recording hashers and sequence construction helpers.

use crate::codecs::CI;
use crate::model::Alphabet;
use crate::rng::Rng;
use bio_seq::prelude::*;
use std::any::Any;
use std::cell::RefCell;
use std::hash::Hasher;
use std::panic::{catch_unwind, AssertUnwindSafe};

thread_local! {
    static LAST_PANIC_LOC: RefCell<String> = const { RefCell::new(String::new()) };
}

/// Replace the default hook by one that prints nothing and remembers the location.
pub fn install_quiet_panic_hook() {
    std::panic::set_hook(Box::new(|info| {
        let loc = info
            .location()
            .map(|l| format!("{}:{}:{}", l.file(), l.line(), l.column()))
            .unwrap_or_default();
        LAST_PANIC_LOC.with(|c| *c.borrow_mut() = loc);
    }));
}
pub fn take_last_panic_location() -> String {
    LAST_PANIC_LOC.with(|c| std::mem::take(&mut *c.borrow_mut()))
}
pub fn panic_message(e: &Box<dyn Any + Send>) -> String {
    if let Some(s) = e.downcast_ref::<&str>() {
        s.to_string()
    } else if let Some(s) = e.downcast_ref::<String>() {
        s.clone()
    } else {
        "<non-string panic payload>".to_string()
    }
}

/// Observe a call: `Ok(value)` or `Err("message at location")` when it panicked.
pub fn observe<R>(f: impl FnOnce() -> R) -> Result<R, String> {
    match catch_unwind(AssertUnwindSafe(f)) {
        Ok(r) => Ok(r),
        Err(e) => {
            let m = panic_message(&e);
            let l = take_last_panic_location();
            Err(format!("{m} at {l}"))
        }
    }
}

// ------------------------------------------------------------------ hashers

/// Records everything a value feeds to a hasher.
#[derive(Default, Clone, Debug)]
pub struct RecHasher {
    pub bytes: Vec<u8>,
    pub writes: usize,
}
impl Hasher for RecHasher {
    fn write(&mut self, b: &[u8]) {
        self.bytes.extend_from_slice(b);
        self.writes += 1;
    }
    fn finish(&self) -> u64 {
        crate::rng::fnv(&self.bytes)
    }
}
pub fn hash_stream<T: std::hash::Hash + ?Sized>(v: &T) -> Vec<u8> {
    let mut h = RecHasher::default();
    v.hash(&mut h);
    h.bytes
}
pub fn hash_stream_w<T: std::hash::Hash + ?Sized>(v: &T) -> (Vec<u8>, usize) {
    let mut h = RecHasher::default();
    v.hash(&mut h);
    (h.bytes, h.writes)
}
pub fn default_hash<T: std::hash::Hash + ?Sized>(v: &T) -> u64 {
    let mut h = std::collections::hash_map::DefaultHasher::new();
    v.hash(&mut h);
    h.finish()
}

/// A deliberately weak hasher (only the number of bytes written counts): forces collisions
/// so that `Eq` has to do the work in hash maps.
#[derive(Default, Clone)]
pub struct WeakHasher(u64);
impl Hasher for WeakHasher {
    fn write(&mut self, b: &[u8]) {
        self.0 = self.0.wrapping_add(b.len() as u64);
    }
    fn finish(&self) -> u64 {
        self.0 & 7
    }
}
#[derive(Default, Clone)]
pub struct WeakState;
impl std::hash::BuildHasher for WeakState {
    type Hasher = WeakHasher;
    fn build_hasher(&self) -> WeakHasher {
        WeakHasher::default()
    }
}

// ------------------------------------------------------------------ sequences

/// Build the real sequence for a model sequence by parsing its text.
pub fn mk<C: CI>(codes: &[u8]) -> Seq<C> {
    let t = C::alpha().text(codes);
    let s = Seq::<C>::try_from(t.as_str()).unwrap_or_else(|e| panic!("harness: model text {t:?} rejected: {e:?}"));
    if exact_fit_on() {
        return exact_copy::<C>(&s);
    }
    s
}
/// Observe the codes of a real slice (through iteration and `to_bits`).
/// A decode that panics (invalid bit pattern) yields a marker vector that equals no model value.
pub fn codes_of<C: CI>(s: &SeqSlice<C>) -> Vec<u8> {
    match observe(|| s.iter().map(|x| x.to_bits()).collect::<Vec<u8>>()) {
        Ok(v) => v,
        Err(_) => vec![0xEE; s.len() + 1],
    }
}
/// display that cannot panic (for failure messages)
pub fn show<C: CI>(s: &SeqSlice<C>) -> String {
    observe(|| s.to_string()).unwrap_or_else(|e| format!("<display panicked: {e}>"))
}
pub fn rand_codes(rng: &mut Rng, a: &Alphabet, n: usize) -> Vec<u8> {
    let codes = a.codes();
    (0..n).map(|_| *rng.pick(&codes)).collect()
}
/// n codes in which every symbol of the alphabet appears as early as possible
pub fn cover_codes(rng: &mut Rng, a: &Alphabet, n: usize) -> Vec<u8> {
    let codes = a.codes();
    let start = rng.below(codes.len());
    (0..n)
        .map(|i| if i < codes.len() { codes[(start + i) % codes.len()] } else { *rng.pick(&codes) })
        .collect()
}
/// symbols per 64-bit word (rounded down)
pub fn per_word(bits: u8) -> usize {
    64 / bits as usize
}
/// Length classes: 0, 1, 2 and the lengths around each of the first `words` word boundaries.
pub fn boundary_lengths(bits: u8, words: usize) -> Vec<usize> {
    let mut v = vec![0usize, 1, 2, 3];
    for k in 1..=words {
        let b = (64 * k) / bits as usize;
        for d in [-2i64, -1, 0, 1, 2] {
            let x = b as i64 + d;
            if x >= 0 {
                v.push(x as usize);
            }
        }
    }
    v.sort_unstable();
    v.dedup();
    v
}
pub fn len_class(bits: u8, n: usize) -> String {
    if n <= 2 {
        return format!("{n}");
    }
    let nb = n * bits as usize;
    let w = nb / 64;
    let r = nb % 64;
    let near = if r == 0 {
        "eq"
    } else if r <= 2 * bits as usize {
        "just-over"
    } else if r >= 64 - 2 * bits as usize {
        "just-under"
    } else {
        "mid"
    };
    format!("w{}{}", w.min(4), near)
}
/// does any symbol of a slice starting at bit `head` with `n` symbols straddle a word boundary?
pub fn straddles(bits: u8, head: usize, n: usize) -> bool {
    let b = bits as usize;
    (0..n).any(|i| {
        let s = head + i * b;
        s / 64 != (s + b - 1) / 64
    })
}

/// A parent sequence `pad ++ codes ++ tail`; the window `[pad, pad+len)` is the content.
pub struct Padded<C: CI> {
    pub parent: Seq<C>,
    pub pad: usize,
    pub len: usize,
}
impl<C: CI> Padded<C> {
    pub fn new(rng: &mut Rng, pad: usize, codes: &[u8], tail: usize) -> Self {
        let a = C::alpha();
        // exact-fit mode: nothing after the window, and `mk` gives the parent an allocation without spare words
        let tail = if exact_fit_on() { 0 } else { tail };
        let mut all = rand_codes(rng, a, pad);
        all.extend_from_slice(codes);
        all.extend(rand_codes(rng, a, tail));
        Padded { parent: mk::<C>(&all), pad, len: codes.len() }
    }
    pub fn slice(&self) -> &SeqSlice<C> {
        &self.parent[self.pad..self.pad + self.len]
    }
}
/// number of distinct achievable start offsets: pads 0..n give all of them
pub fn n_offsets(bits: u8) -> usize {
    let mut g = bits as usize;
    let mut b = 64usize;
    while b != 0 {
        let t = g % b;
        g = b;
        b = t;
    }
    64 / g
}
pub fn fp(parts: &[&[u8]]) -> u64 {
    let mut h: u64 = 0xcbf2_9ce4_8422_2325;
    for p in parts {
        for &b in *p {
            h ^= b as u64;
            h = h.wrapping_mul(0x0000_0100_0000_01b3);
        }
        h ^= 0xff;
        h = h.wrapping_mul(0x0000_0100_0000_01b3);
    }
    h
}

/// lengths of many machine words (4, 5, 8, 9, 16 and 33 words and their neighbours): fast paths that
/// only engage on long sequences, block-wise algorithms and reallocation states live here
pub fn long_lengths(bits: u8) -> Vec<usize> {
    let pw = per_word(bits);
    let mut v = Vec::new();
    for w in [4usize, 5, 8, 9, 16, 33] {
        let b = w * 64 / bits as usize;
        v.extend([b - 1, b, b + 1, b + pw / 2 + 1]);
    }
    v.sort_unstable();
    v.dedup();
    v
}

/// Drain an iterator through `nth` / `skip` / `step_by` / `count` / `last` / `size_hint` and compare
/// with the model items (these adaptors call the iterator's own `nth`, which an implementation may
/// override).  `mk` builds a fresh iterator, `key` maps an item to a comparable value.
/// Returns a list of (class, detail) disagreements.
pub fn adaptor_laws<I, K>(mk: &dyn Fn() -> I, key: &dyn Fn(I::Item) -> K, want: &[K]) -> Vec<(String, String)>
where
    I: Iterator,
    K: PartialEq + Clone + std::fmt::Debug,
{
    let n = want.len();
    let mut bad: Vec<(String, String)> = Vec::new();
    let mut v = |c: &str, d: String| {
        if bad.len() < 8 {
            bad.push((c.to_string(), d));
        }
    };
    let huge = [usize::MAX, usize::MAX - 1, usize::MAX / 2, usize::MAX / 2 + 1, 1usize << 62, (1usize << 62) + 1, usize::MAX / 3, usize::MAX / 5 + 7];
    let mut ks: Vec<usize> = vec![0, 1, 2, 3, n / 2, n.saturating_sub(1), n, n + 1];
    ks.extend(huge);
    for &k in &ks {
        // nth(k), then the iterator continues right after item k
        let r = observe(|| {
            let mut it = mk();
            let a = it.nth(k).map(key);
            let mut rest = Vec::new();
            for _ in 0..n + 3 {
                match it.next() {
                    Some(x) => rest.push(key(x)),
                    None => break,
                }
            }
            (a, rest)
        });
        match r {
            Ok((a, rest)) => {
                if a.as_ref() != want.get(k) {
                    v("nth|wrong-item", format!("nth({k:#x}) = {:?}, item {k} is {:?} (n = {n})", a, want.get(k)));
                }
                let exp: &[K] = if k < n { &want[k + 1..] } else { &[] };
                if rest != exp {
                    v("nth|wrong-continuation", format!("after nth({k:#x}) the iterator yields {} items {:?}..., expected {} (n = {n})", rest.len(), rest.first(), exp.len()));
                }
            }
            Err(p) => v("nth|panics", format!("nth({k:#x}) panicked: {p}")),
        }
        // skip(k)
        let r = observe(|| mk().skip(k).take(n + 3).map(key).collect::<Vec<K>>());
        match r {
            Ok(got) => {
                let exp: &[K] = if k < n { &want[k..] } else { &[] };
                if got != exp {
                    v("skip|wrong-items", format!("skip({k:#x}) yields {} items, expected {} (n = {n})", got.len(), exp.len()));
                }
            }
            Err(p) => v("skip|panics", format!("skip({k:#x}) panicked: {p}")),
        }
    }
    let mut steps: Vec<usize> = vec![1, 2, 3, n.max(1), n + 1];
    steps.extend(huge);
    for &s in &steps {
        let r = observe(|| mk().step_by(s).take(n + 3).map(key).collect::<Vec<K>>());
        match r {
            Ok(got) => {
                let exp: Vec<K> = want.iter().step_by(s).cloned().collect();
                if got != exp {
                    v("step_by|wrong-items", format!("step_by({s:#x}) yields {} items {:?}..., expected {} (n = {n})", got.len(), got.get(1), exp.len()));
                }
            }
            Err(p) => v("step_by|panics", format!("step_by({s:#x}) panicked: {p}")),
        }
    }
    // two nth calls in a row (stateful cursors)
    if n >= 4 {
        let r = observe(|| {
            let mut it = mk();
            let a = it.nth(1).map(key);
            let b = it.nth(1).map(key);
            let c = it.next().map(key);
            (a, b, c)
        });
        match r {
            Ok((a, b, c)) => {
                if a.as_ref() != want.get(1) || b.as_ref() != want.get(3) || c.as_ref() != want.get(4) {
                    v("nth|stateful", format!("nth(1), nth(1), next() = {:?} {:?} {:?}, expected items 1, 3, 4", a, b, c));
                }
            }
            Err(p) => v("nth|panics", format!("repeated nth panicked: {p}")),
        }
    }
    match observe(|| (mk().count(), mk().last().map(key), mk().size_hint())) {
        Ok((c, l, (lo, hi))) => {
            if c != n {
                v("count|wrong", format!("count() = {c}, expected {n}"));
            }
            if l.as_ref() != want.last() {
                v("last|wrong", format!("last() = {:?}, expected {:?}", l, want.last()));
            }
            if lo > n || hi.map_or(false, |h| h < n) {
                v("size_hint|excludes-true-length", format!("size_hint() = ({lo}, {hi:?}) but the iterator yields {n} items"));
            }
        }
        Err(p) => v("count|panics", format!("count/last/size_hint panicked: {p}")),
    }
    bad
}

/// The same items presented through iterators with different `size_hint`s: constructors that
/// pre-allocate or pre-fill from the hint must still take every item exactly once.
/// Calls `f(shape name, iterator)` once per shape.
pub fn iterator_shapes<T: Copy + 'static>(items: &[T], mut f: impl FnMut(&'static str, &mut dyn Iterator<Item = T>)) {
    let n = items.len();
    // exact: (n, Some(n))
    f("exact", &mut items.iter().copied());
    // unknown: (0, None)
    f("unknown(0,None)", &mut items.iter().copied().filter(|_| true).chain(std::iter::from_fn(|| None)));
    // lower bound below the true count: (k, None) / (k, Some(n))
    if n >= 2 {
        let k = n / 2;
        f("lower<count(k,Some(n))", &mut items[..k].iter().copied().chain(items[k..].iter().copied().filter(|_| true)));
        f("lower=1", &mut std::iter::once(items[0]).chain(items[1..].iter().copied().filter(|_| true)));
    }
    // upper bound far above the true count: (0, Some(usize::MAX))
    let mut i = 0usize;
    f("upper=usize::MAX", &mut std::iter::repeat(()).take(usize::MAX).map_while(|_| { let r = items.get(i).copied(); i += 1; r }));
    let mut j = 0usize;
    f("upper=2^62", &mut (0..(1u64 << 62)).map_while(|_| { let r = items.get(j).copied(); j += 1; r }));
    // peeked
    let mut p = items.iter().copied().filter(|_| true).peekable();
    let _ = p.peek();
    f("peeked", &mut p);
}

// ------------------------------------------------------------------ exact-fit operands
//
// Sanitizer-directed operands: sequences whose backing allocation is exactly as large as their
// content (no spare capacity, no tail symbols after the window), so that any access past the last
// word / last byte of the content is an access past the allocation, which Miri, ASan and memcheck
// report.  While the mode is on, `mk` returns exact-capacity sequences and `Padded::new` ignores
// the requested tail.  The per-case functions of the monitors run unchanged.

thread_local! {
    static EXACT_FIT: std::cell::Cell<bool> = const { std::cell::Cell::new(false) };
    static EXACT_BUILT: std::cell::Cell<(u64, u64)> = const { std::cell::Cell::new((0, 0)) };
}
pub struct ExactFitGuard(bool);
impl Drop for ExactFitGuard {
    fn drop(&mut self) {
        EXACT_FIT.with(|c| c.set(self.0));
    }
}
/// switch exact-fit mode on until the guard is dropped (also on unwinding)
pub fn exact_fit_mode() -> ExactFitGuard {
    ExactFitGuard(EXACT_FIT.with(|c| c.replace(true)))
}
pub fn exact_fit_on() -> bool {
    EXACT_FIT.with(|c| c.get())
}
/// (sequences built in exact-fit mode, of which the capacity hook confirmed "no spare word")
pub fn exact_fit_stats() -> (u64, u64) {
    EXACT_BUILT.with(|c| c.get())
}
/// a copy of `s` whose allocation holds exactly ceil(bits/64) words
pub fn exact_copy<C: CI>(s: &SeqSlice<C>) -> Seq<C> {
    let e: Seq<C> = s.to_owned();
    let bits = e.len() * C::BITS as usize;
    let tight = e.verif_capacity_bits() == bits.div_ceil(64) * 64;
    EXACT_BUILT.with(|c| {
        let (a, b) = c.get();
        c.set((a + 1, b + tight as u64));
    });
    e
}
/// (length, pad) pairs, most interesting first, for a codec of `bits` bits per symbol: the window
/// [pad, pad+len) of a parent of exactly pad+len symbols.  W = symbols in the smallest whole number of words.
pub fn exact_fit_cases(bits: u8) -> Vec<(usize, usize)> {
    let b = bits as usize;
    let mut g = b;
    let mut r = 64usize;
    while r != 0 {
        let t = g % r;
        g = r;
        r = t;
    }
    let w = 64 / g; // symbols that fill whole words exactly (w*b is a multiple of 64)
    let pw = 64 / b; // symbols that fit one word
    let mut v = vec![(w, 0), (2 * w, 0), (w, w), (w - 1, 1), (1, w - 1), (0, w), (w, 2 * w)];
    if pw != w {
        v.push((pw, 0));
        v.push((pw, w));
    }
    v.push((w + 1, w - 1));
    v.push((4 * w, 0));
    v.push((5 * w - 3, 3));
    v
}
fn exact_fit_small(bits: u8, w: usize, n: usize, p: usize) -> bool {
    n + p <= 100 && (n + p) * bits as usize <= (3 * 64 + 8).max(w * bits as usize + 8)
}
/// the cases a monitor runs: all of them natively (and under ASan); under the reduced budgets of Miri / memcheck
/// (every symbol costs tens of milliseconds there) only those of at most 100 symbols and 3 words (or one whole-word period of the codec, if longer), rotated by shard
/// and seed so that the runs of one stage, and runs with different seeds, start at different cases
pub fn exact_fit_cases_for(ctx: &crate::ctx::Ctx, bits: u8) -> Vec<(usize, usize)> {
    let mut v = exact_fit_cases(bits);
    if ctx.lite {
        let w = v[0].0;
        v.retain(|(n, p)| exact_fit_small(bits, w, *n, *p));
        let k = (ctx.shard + ctx.seed as usize) % v.len().max(1);
        v.rotate_left(k);
    }
    v
}

/// A monitor's list of lengths extended with the exact-fit cases: `(len, None)` = ordinary case (the monitor picks
/// its pad), `(len, Some(pad))` = exact-fit case.  Under reduced budgets (Miri / memcheck: a handful of evaluations
/// per group) the exact-fit cases come first and the whole list is rotated by the shard index, so that the shards
/// of one stage see different parts; natively they are appended.
pub fn exact_plan(ctx: &crate::ctx::Ctx, bits: u8, lens: Vec<usize>) -> Vec<(usize, Option<usize>)> {
    let ex: Vec<(usize, Option<usize>)> = exact_fit_cases(bits).into_iter().filter(|(n, p)| !ctx.lite || exact_fit_small(bits, exact_fit_cases(bits)[0].0, *n, *p)).map(|(n, p)| (n, Some(p))).collect();
    let ord: Vec<(usize, Option<usize>)> = lens.into_iter().map(|n| (n, None)).collect();
    if ctx.lite {
        let mut v = ex;
        v.extend(ord);
        let k = (ctx.shard * 2 + ctx.seed as usize) % v.len().max(1);
        v.rotate_left(k);
        v
    } else {
        let mut v = ord;
        v.extend(ex);
        v
    }
}

// ------------------------------------------------------------------ far-from-small inputs
//
// Lengths far beyond the boundary classes (which stop at 33 machine words): block-wise loops, page-wise
// decoders, 16-bit / 32-bit offsets and capacity growth only show with several full blocks.  The ladder is
// geometric in symbols (2^10 .. 2^16, each -1, +0, +1, +100) and in machine words (65 .. 2049 words, each
// -1, +0, +1 symbol) because block sizes are chosen in either unit.

pub fn huge_lengths_all(bits: u8) -> Vec<usize> {
    let b = bits as usize;
    let mut v: Vec<usize> = Vec::new();
    for k in 10..=16u32 {
        let p = 1usize << k;
        v.extend([p - 1, p, p + 1, p + 100]);
    }
    for w in [65usize, 100, 129, 257, 300, 513, 1025, 2049] {
        let n = w * 64 / b;
        v.extend([n - 1, n, n + 1]);
    }
    v.push(683); // the first length whose 6-bit symbols exceed 4096 bits
    v.push(2731);
    v.sort_unstable();
    v.dedup();
    v
}
/// the lengths one run uses: none under the reduced budgets (Miri / memcheck), all of them in the thorough tier
/// (and under ASan), and in the quick tier a sample of ten that depends on the seed and always holds the largest
/// class (2^16 symbols) and one length just above 2^15 symbols
pub fn huge_lengths(ctx: &crate::ctx::Ctx, bits: u8) -> Vec<usize> {
    if ctx.lite {
        return vec![];
    }
    let all = huge_lengths_all(bits);
    if ctx.tier == crate::ctx::Tier::Thorough {
        return all;
    }
    let mut v: Vec<usize> = all.iter().copied().enumerate().filter(|(i, _)| (i + ctx.seed as usize) % 5 == 0).map(|(_, n)| n).collect();
    v.extend([(1 << 15) + 1, (1 << 16) + 100, 4096 + 100, 8192 + 77]);
    v.sort_unstable();
    v.dedup();
    v
}
/// Contents that random generation does not produce, chosen by `k`: 0 random; 1 one run of a single non-zero
/// symbol covering the middle three quarters, random flanks; 2 a single non-zero symbol throughout; 3 a random
/// block of 4096 symbols repeated; 4 a random block of 64 symbols repeated; 5 blocks of 4096 symbols drawn
/// alternately from the lower and the upper half of the alphabet; 6 the zero-coded symbol throughout except
/// the first and last position
pub fn structured_codes(rng: &mut Rng, a: &Alphabet, n: usize, k: usize) -> Vec<u8> {
    let codes = a.codes();
    let nz: Vec<u8> = codes.iter().copied().filter(|c| *c != 0).collect();
    let pick_nz = |rng: &mut Rng| if nz.is_empty() { codes[0] } else { *rng.pick(&nz) };
    match k % 7 {
        0 => rand_codes(rng, a, n),
        1 => {
            let mut v = rand_codes(rng, a, n);
            let c = pick_nz(rng);
            for x in v.iter_mut().take(n - n / 8).skip(n / 8) {
                *x = c;
            }
            v
        }
        2 => vec![pick_nz(rng); n],
        3 | 4 => {
            let p = if k % 7 == 3 { 4096 } else { 64 };
            let block = rand_codes(rng, a, p.min(n.max(1)));
            (0..n).map(|i| block[i % block.len()]).collect()
        }
        5 => {
            let mut sorted = codes.clone();
            sorted.sort_unstable();
            let (lo, hi) = sorted.split_at(sorted.len() / 2);
            (0..n).map(|i| if (i / 4096) % 2 == 0 { *rng.pick(lo) } else { *rng.pick(hi) }).collect()
        }
        _ => {
            let zero = codes.iter().copied().min().unwrap();
            let mut v = vec![zero; n];
            if n > 0 {
                v[0] = pick_nz(rng);
                v[n - 1] = pick_nz(rng);
            }
            v
        }
    }
}
