//! bsv — bio-seq verification monitors: shared infrastructure.
//!
//! Every property has one binary under `src/bin/`; all of them use this
//! library for the reference model, the PRNG, coverage/violation reporting,
//! panic observation and the codec / k-mer registries.

pub mod codecs;
pub mod ctx;
pub mod derive_check;
pub mod model;
pub mod rng;
pub mod util;

pub use codecs::*;
pub use ctx::*;
pub use rng::Rng;
pub use util::*;
