//! Deterministic xorshift64* PRNG. All random choices of all monitors come from here.

#[derive(Clone, Debug)]
pub struct Rng(pub u64);

pub fn fnv(s: &[u8]) -> u64 {
    let mut h: u64 = 0xcbf2_9ce4_8422_2325;
    for &b in s {
        h ^= b as u64;
        h = h.wrapping_mul(0x0000_0100_0000_01b3);
    }
    h
}

impl Rng {
    pub fn new(seed: u64) -> Self {
        let mut r = Rng(seed ^ 0x9E37_79B9_7F4A_7C15);
        if r.0 == 0 {
            r.0 = 0x1234_5678_9abc_def1;
        }
        for _ in 0..4 {
            r.next();
        }
        r
    }
    /// independent stream for a named group
    pub fn derive(seed: u64, name: &str) -> Self {
        Rng::new(seed.wrapping_mul(0x2545_F491_4F6C_DD1D) ^ fnv(name.as_bytes()))
    }
    pub fn next(&mut self) -> u64 {
        let mut x = self.0;
        x ^= x >> 12;
        x ^= x << 25;
        x ^= x >> 27;
        self.0 = x;
        x.wrapping_mul(0x2545_F491_4F6C_DD1D)
    }
    /// uniform in 0..n (n > 0)
    pub fn below(&mut self, n: usize) -> usize {
        (self.next() % n as u64) as usize
    }
    /// uniform in lo..=hi
    pub fn range(&mut self, lo: usize, hi: usize) -> usize {
        lo + self.below(hi - lo + 1)
    }
    pub fn chance(&mut self, num: usize, den: usize) -> bool {
        self.below(den) < num
    }
    pub fn pick<'a, T>(&mut self, v: &'a [T]) -> &'a T {
        &v[self.below(v.len())]
    }
    pub fn byte(&mut self) -> u8 {
        (self.next() >> 32) as u8
    }
}
